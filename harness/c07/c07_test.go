// C07 — serialized task kinds never run concurrently.
// The four real managers that register AddBlocked predicates (hookstate, ifacestate, snapstate,
// devicestate) are constructed on ONE TaskRunner exactly as overlord.New does; the handlers of the
// task kinds under study are then replaced by gated stubs (AddHandler overwrites the pair, the
// predicates stay). Every task multiset up to a bound x every schedule over {Ensure(visiting order),
// Complete(t)} is explored with state dedup; the exclusion invariant is evaluated in every state.
package c07_test

import (
	"encoding/json"
	"fmt"
	"os"
	"sort"
	"strings"
	"testing"
	"time"

	"gopkg.in/tomb.v2"

	"github.com/snapcore/snapd/dirs"
	"github.com/snapcore/snapd/overlord"
	"github.com/snapcore/snapd/overlord/devicestate"
	"github.com/snapcore/snapd/overlord/hookstate"
	"github.com/snapcore/snapd/overlord/ifacestate"
	"github.com/snapcore/snapd/overlord/snapstate"
	"github.com/snapcore/snapd/overlord/state"
	eng "github.com/snapcore/snapd/verifengine"
)

// the menu of task templates; Tag is what the oracle looks at
type tmpl struct {
	Name string `json:"name"`
	Kind string `json:"kind"`
	Snap string `json:"snap,omitempty"` // for run-hook
}

var menu = []tmpl{
	{"hookA1", "run-hook", "snap-a"},
	{"hookA2", "run-hook", "snap-a"},
	{"hookB", "run-hook", "snap-b"},
	{"connect", "connect", ""},
	{"disconnect", "disconnect", ""},
	{"setup-profiles", "setup-profiles", ""},
	{"auto-connect", "auto-connect", ""},
	{"prereq1", "prerequisites", ""},
	{"prereq2", "prerequisites", ""},
	{"gadget-assets", "update-gadget-assets", ""},
	{"gadget-cmdline", "update-gadget-cmdline", ""},
	{"link-snap", "link-snap", ""},
}

// the multisets range over the first coreMenu entries; TestC07 appends one entry per further task kind that the
// real managers register (pair family: membership of every kind in its serialization class)
const coreMenu = 12

var ifaceKinds = map[string]bool{"connect": true, "disconnect": true, "setup-profiles": true, "remove-profiles": true, "discard-conns": true,
	"auto-connect": true, "auto-disconnect": true, "hotplug-add-slot": true, "hotplug-connect": true, "hotplug-update-slot": true,
	"hotplug-remove-slot": true, "hotplug-disconnect": true, "transition-ubuntu-core": true}

type config struct {
	Tasks []int `json:"tasks"` // indices into menu
	// Chain: task Chain[1] waits for task Chain[0] (both indices into Tasks), or nil. Chained tasks share a change.
	Chain []int `json:"chain,omitempty"`
}

func (c config) String() string {
	var s []string
	for _, i := range c.Tasks {
		s = append(s, menu[i].Name)
	}
	return fmt.Sprintf("%v chain=%v", s, c.Chain)
}

type event struct {
	Kind string `json:"k"`
	T    int    `json:"t,omitempty"`
	Perm []int  `json:"p,omitempty"`
}

type startEv struct {
	i   int
	tb  *tomb.Tomb
	rel chan struct{}
}

type parked struct {
	tb  *tomb.Tomb
	rel chan struct{}
}

type world struct {
	cfg      config
	st       *state.State
	r        *state.TaskRunner
	tasks    []*state.Task
	idx      map[string]int
	startCh  chan startEv
	parked   map[int]*parked
	started  int // Do->Doing transitions not yet matched with a parked handler
	problems []string
	aborts   int // user aborts issued on this path (bounded)
}

var rootDir string

func newWorld(cfg config) *world {
	w := &world{cfg: cfg, startCh: make(chan startEv, 16), parked: map[int]*parked{}, idx: map[string]int{}}
	o := overlord.Mock()
	w.st = o.State()
	w.r = o.TaskRunner()
	hookMgr, err := hookstate.Manager(w.st, w.r)
	if err != nil {
		eng.HarnessError("hookstate.Manager: %v", err)
	}
	if _, err := ifacestate.Manager(w.st, hookMgr, w.r, nil, nil); err != nil {
		eng.HarnessError("ifacestate.Manager: %v", err)
	}
	if _, err := snapstate.Manager(w.st, w.r); err != nil {
		eng.HarnessError("snapstate.Manager: %v", err)
	}
	if _, err := devicestate.Manager(w.st, hookMgr, w.r, nil); err != nil {
		eng.HarnessError("devicestate.Manager: %v", err)
	}
	known := map[string]bool{}
	for _, k := range w.r.KnownTaskKinds() {
		known[k] = true
	}
	kinds := map[string]bool{}
	for _, ti := range cfg.Tasks {
		kinds[menu[ti].Kind] = true
	}
	for k := range kinds {
		if !known[k] {
			eng.HarnessError("task kind %q is not registered by the real managers (menu out of date)", k)
		}
		w.r.AddHandler(k, w.gated(), nil)
	}
	w.st.Lock()
	for n, ti := range cfg.Tasks {
		m := menu[ti]
		t := w.st.NewTask(m.Kind, fmt.Sprintf("%s #%d", m.Name, n))
		if m.Kind == "run-hook" {
			t.Set("hook-setup", &hookstate.HookSetup{Snap: m.Snap, Hook: "configure"})
		}
		w.tasks = append(w.tasks, t)
		w.idx[t.ID()] = n
	}
	if len(cfg.Chain) == 2 {
		w.tasks[cfg.Chain[1]].WaitFor(w.tasks[cfg.Chain[0]])
	}
	for n, t := range w.tasks {
		if len(cfg.Chain) == 2 && n == cfg.Chain[1] {
			continue
		}
		chg := w.st.NewChange("verif", fmt.Sprintf("change %d", n))
		chg.AddTask(t)
		if len(cfg.Chain) == 2 && n == cfg.Chain[0] {
			chg.AddTask(w.tasks[cfg.Chain[1]])
		}
	}
	w.st.AddTaskStatusChangedHandler(func(t *state.Task, old, new state.Status) {
		if new == state.DoingStatus {
			w.started++
		}
	})
	w.st.Unlock()
	return w
}

func (w *world) gated() state.HandlerFunc {
	return func(t *state.Task, tb *tomb.Tomb) error {
		rel := make(chan struct{})
		w.startCh <- startEv{w.idx[t.ID()], tb, rel}
		<-rel
		return nil
	}
}

func (w *world) collect() {
	for w.started > 0 {
		select {
		case ev := <-w.startCh:
			w.parked[ev.i] = &parked{ev.tb, ev.rel}
			w.started--
		case <-time.After(3 * time.Minute): // generous: only a real deadlock should trip this, never machine load
			panic("harness: started handler did not park")
		}
	}
	w.checkExclusion()
}

func (w *world) ensure(perm []int) {
	rank := map[string]int{}
	for k, i := range perm {
		rank[w.tasks[i].ID()] = k
	}
	state.VerifOrderTasks = func(ts []*state.Task) {
		sort.SliceStable(ts, func(a, b int) bool {
			ra, oka := rank[ts[a].ID()]
			rb, okb := rank[ts[b].ID()]
			if !oka {
				ra = -1000 + w.idx[ts[a].ID()]
			}
			if !okb {
				rb = -1000 + w.idx[ts[b].ID()]
			}
			return ra < rb
		})
	}
	w.r.Ensure()
	state.VerifOrderTasks = nil
	w.collect()
}

func (w *world) complete(i int) {
	p := w.parked[i]
	delete(w.parked, i)
	close(p.rel)
	p.tb.Wait()
	w.collect()
}

func (w *world) dispose() {
	for i, p := range w.parked {
		delete(w.parked, i)
		close(p.rel)
		p.tb.Wait()
	}
}

// the property, evaluated on the set of handlers that are running right now
func (w *world) checkExclusion() {
	var run []tmpl
	for i := range w.parked {
		run = append(run, menu[w.cfg.Tasks[i]])
	}
	hooks := map[string]int{}
	iface, prereq, gadget := 0, 0, 0
	for _, m := range run {
		switch {
		case m.Kind == "run-hook":
			hooks[m.Snap]++
		case ifaceKinds[m.Kind]:
			iface++
		case m.Kind == "prerequisites":
			prereq++
		case m.Kind == "update-gadget-assets":
			gadget++
		}
	}
	for s, n := range hooks {
		if n > 1 {
			w.problems = append(w.problems, fmt.Sprintf("hooks: %d hooks of %s run at once", n, s))
		}
	}
	if iface > 1 {
		w.problems = append(w.problems, fmt.Sprintf("interfaces: %d interface-manipulating tasks run at once", iface))
	}
	if prereq > 1 {
		w.problems = append(w.problems, fmt.Sprintf("prerequisites: %d prerequisites tasks run at once", prereq))
	}
	if gadget > 0 && len(run) > 1 {
		w.problems = append(w.problems, fmt.Sprintf("gadget: update-gadget-assets runs alongside %d other task(s)", len(run)-1))
	}
}

func (w *world) key() string {
	w.st.Lock()
	defer w.st.Unlock()
	var sb strings.Builder
	for i, t := range w.tasks {
		fmt.Fprintf(&sb, "%d", int(t.Status()))
		if w.parked[i] != nil {
			sb.WriteByte('P')
		}
		if t.IsClean() {
			sb.WriteByte('c')
		}
		if p := w.parked[i]; p != nil && !p.tb.Alive() {
			sb.WriteByte('!')
		}
		sb.WriteByte(' ')
	}
	fmt.Fprintf(&sb, "a%d", w.aborts)
	return sb.String()
}

func perms(xs []int) [][]int {
	if len(xs) <= 1 {
		return [][]int{append([]int(nil), xs...)}
	}
	var res [][]int
	for i := range xs {
		rest := append(append([]int(nil), xs[:i]...), xs[i+1:]...)
		for _, p := range perms(rest) {
			res = append(res, append([]int{xs[i]}, p...))
		}
	}
	return res
}

func (w *world) enabled() []event {
	var evs []event
	var pk []int
	for i := range w.parked {
		pk = append(pk, i)
	}
	sort.Ints(pk)
	for _, i := range pk {
		evs = append(evs, event{Kind: "complete", T: i})
	}
	// one user abort per path, of the change of a task whose handler is running: the task goes to Abort, its tomb is
	// killed, but the handler keeps executing until it is released — it must still count as running for serialization
	if maxAborts > w.aborts && len(w.cfg.Tasks) <= abortMaxTasks {
		for _, i := range pk {
			if !w.parked[i].tb.Alive() {
				continue
			}
			evs = append(evs, event{Kind: "abort", T: i})
		}
	}
	w.st.Lock()
	var cand []int
	for i, t := range w.tasks {
		if w.parked[i] == nil && t.Status() == state.DoStatus {
			cand = append(cand, i)
		}
	}
	w.st.Unlock()
	// all visiting orders of the candidates: the order decides which of several mutually exclusive candidates starts.
	// Candidates of the same template are interchangeable (identical kind/snap, no edges): only orders in which equal
	// templates appear in index order are kept.
	for _, p := range perms(cand) {
		ok := true
		for a := 0; a < len(p) && ok; a++ {
			for b := a + 1; b < len(p); b++ {
				if w.cfg.Tasks[p[a]] == w.cfg.Tasks[p[b]] && p[a] > p[b] && !w.inChain(p[a]) && !w.inChain(p[b]) {
					ok = false
					break
				}
			}
		}
		if ok {
			evs = append(evs, event{Kind: "ensure", Perm: p})
		}
	}
	return evs
}

func (w *world) inChain(i int) bool {
	return len(w.cfg.Chain) == 2 && (w.cfg.Chain[0] == i || w.cfg.Chain[1] == i)
}

func (w *world) apply(ev event) {
	switch ev.Kind {
	case "ensure":
		w.ensure(ev.Perm)
	case "abort":
		w.st.Lock()
		chg := w.tasks[ev.T].Change()
		if !chg.IsReady() {
			chg.Abort() // as daemon/api_general.go:abortChange does
		}
		w.st.Unlock()
		w.aborts++
		// the runner kills the tomb of an aborted running task at its next Ensure pass; nothing starts here
		w.checkExclusion()
	default:
		w.complete(ev.T)
	}
}

var maxAborts = 1

// aborts are explored for configurations of at most this many tasks (quick 3, thorough 4)
var abortMaxTasks = 3

type caseT struct {
	Config config  `json:"config"`
	Path   []event `json:"path"`
	Msg    string  `json:"msg,omitempty"`
}

type explorer struct {
	cfg       config
	seen      map[string]bool
	states    int
	trans     int
	maxParked int
	terminals int
	report    func(path []event, msg string)
}

func (x *explorer) build(path []event) *world {
	w := newWorld(x.cfg)
	for _, ev := range path {
		w.apply(ev)
	}
	w.problems = nil
	return w
}

func (x *explorer) dfs(path []event, w *world) {
	if len(w.parked) > x.maxParked {
		x.maxParked = len(w.parked)
	}
	pre := w.key()
	evs := w.enabled()
	progress := false
	for k, ev := range evs {
		var w2 *world
		if k == len(evs)-1 {
			w2, w = w, nil
		} else {
			w2 = x.build(path)
			if w2.key() != pre {
				eng.HarnessError("replay diverged for %s", x.cfg)
			}
		}
		w2.apply(ev)
		x.trans++
		np := append(append([]event(nil), path...), ev)
		for _, p := range w2.problems {
			x.report(np, p)
		}
		w2.problems = nil
		key := w2.key()
		if key != pre {
			progress = true
		}
		if x.seen[key] {
			w2.dispose()
			continue
		}
		x.seen[key] = true
		x.states++
		x.dfs(np, w2)
	}
	if !progress {
		x.terminals++
		tw := w
		if tw == nil {
			tw = x.build(path)
		}
		tw.st.Lock()
		for i, t := range tw.tasks {
			if t.Status() != state.DoneStatus && !(tw.aborts > 0 && t.Status().Ready()) {
				x.report(path, fmt.Sprintf("progress: nothing is running and no Ensure order starts anything, but task %d (%s) is still %s", i, menu[x.cfg.Tasks[i]].Name, t.Status()))
			}
		}
		tw.st.Unlock()
		if w == nil {
			tw.dispose()
		}
	}
	if w != nil {
		w.dispose()
	}
}

// multisets of size k over the menu (non-decreasing index sequences)
func multisets(k, from int) [][]int {
	if k == 0 {
		return [][]int{nil}
	}
	var res [][]int
	for i := from; i < coreMenu; i++ {
		for _, rest := range multisets(k-1, i) {
			res = append(res, append([]int{i}, rest...))
		}
	}
	return res
}

func interesting(ts []int) bool {
	// at least two tasks that the property relates (otherwise nothing can collide)
	hooks := map[string]int{}
	iface, prereq, gadget := 0, 0, 0
	for _, i := range ts {
		m := menu[i]
		switch {
		case m.Kind == "run-hook":
			hooks[m.Snap]++
		case ifaceKinds[m.Kind]:
			iface++
		case m.Kind == "prerequisites":
			prereq++
		case m.Kind == "update-gadget-assets":
			gadget++
		}
	}
	for _, n := range hooks {
		if n > 1 {
			return true
		}
	}
	return iface > 1 || prereq > 1 || (gadget > 0 && len(ts) > 1)
}

func TestC07(t *testing.T) {
	r := eng.Start("C07", "model_checking", 240*time.Second, 15*time.Minute)
	r.Assume("the four managers are constructed on one runner as in overlord.New (StartUp is never called); handlers of the studied kinds are replaced by gated stubs",
		"two tasks of the same menu entry in independent changes are interchangeable (symmetry reduction on Ensure orders)",
		"no failures/undo in this check (C01-C04 cover the runner's undo machinery)")
	tmp, err := os.MkdirTemp("", "verif-c07-")
	if err != nil {
		eng.HarnessError("%v", err)
	}
	defer os.RemoveAll(tmp)
	dirs.SetRootDir(tmp)
	defer dirs.SetRootDir("/")

	probe := newWorld(config{})
	known := probe.r.KnownTaskKinds()
	probe.dispose()
	sort.Strings(known)
	inMenu := map[string]int{}
	for i, m := range menu {
		if _, ok := inMenu[m.Kind]; !ok {
			inMenu[m.Kind] = i
		}
	}
	for k := range ifaceKinds {
		found := false
		for _, kk := range known {
			found = found || kk == k
		}
		if !found {
			eng.HarnessError("interface task kind %q of the oracle is not registered by the real managers (oracle out of date)", k)
		}
	}
	// kinds with a real clean-up handler are left out of the pair family: the clean-up runs (asynchronously) once the
	// change is ready and expects the data of its real tasks
	withCleanup := map[string]bool{"copy-snap-data": true, "prepare-remodeling": true, "set-model": true, "create-recovery-system": true, "finalize-recovery-system": true}
	kept := known[:0]
	for _, k := range known {
		if !withCleanup[k] {
			kept = append(kept, k)
		}
	}
	known = kept
	for _, k := range known {
		if _, ok := inMenu[k]; !ok {
			menu = append(menu, tmpl{Name: "k:" + k, Kind: k})
			inMenu[k] = len(menu) - 1
		}
	}

	runCase := func(c caseT, rep func(path []event, msg string)) {
		w := newWorld(c.Config)
		fmt.Printf("replay %s\n", c.Config)
		var path []event
		for _, ev := range c.Path {
			w.apply(ev)
			path = append(path, ev)
			var run []string
			for i := range w.parked {
				run = append(run, menu[c.Config.Tasks[i]].Name)
			}
			sort.Strings(run)
			fmt.Printf("  %v -> running %v\n", ev, run)
			for _, p := range w.problems {
				rep(path, p)
			}
			w.problems = nil
		}
		w.dispose()
	}
	if rc := r.ReplayCase(); rc != nil {
		var c caseT
		if err := json.Unmarshal(rc, &c); err != nil {
			eng.HarnessError("%v", err)
		}
		runCase(c, func(path []event, msg string) {
			fmt.Println("   PROBLEM:", msg)
			r.Violation(strings.SplitN(msg, ":", 2)[0]+"|"+c.Config.String(), msg, c)
		})
		r.Finish("replay")
	}

	maxSize := r.Pick(4, 5)
	abortMaxTasks = r.Pick(3, 4)
	var cfgs []config
	for k := 2; k <= maxSize; k++ {
		for _, ms := range multisets(k, 0) {
			// a menu entry may appear at most twice (two identical tasks collide; a third adds nothing new)
			cnt := map[int]int{}
			ok := true
			for _, i := range ms {
				cnt[i]++
				if cnt[i] > 2 {
					ok = false
				}
			}
			if !ok || !interesting(ms) {
				continue
			}
			cfgs = append(cfgs, config{Tasks: ms})
			if k <= 3 {
				// chained variants: each ordered pair (a waits for b)
				for a := 0; a < k; a++ {
					for b := 0; b < k; b++ {
						if a != b {
							cfgs = append(cfgs, config{Tasks: ms, Chain: []int{a, b}})
						}
					}
				}
			}
		}
	}
	// pair family over every registered kind: the serialization predicates key on the task kind, so a kind that drops
	// out of its class (or a class that forgets a kind) shows in a two-task configuration: every interface kind with
	// connect, setup-profiles and itself; every kind at all with update-gadget-assets (exclusive with everything)
	pairs := 0
	for _, k := range known {
		e := inMenu[k]
		var with []int
		if ifaceKinds[k] {
			with = append(with, inMenu["connect"], inMenu["setup-profiles"], e)
		}
		with = append(with, inMenu["update-gadget-assets"])
		for _, o := range with {
			if e < coreMenu && o < coreMenu {
				continue // already among the multisets
			}
			ts := []int{o, e}
			if o > e {
				ts = []int{e, o}
			}
			cfgs = append(cfgs, config{Tasks: ts})
			pairs++
		}
	}
	r.Info("bounds", map[string]interface{}{"max_tasks": maxSize, "menu": coreMenu, "registered_kinds": len(known), "pair_family_configurations": pairs, "configurations": len(cfgs)})
	if r.Sharded(16) {
		r.Finish("sharded")
	}
	for ci, cfg := range cfgs {
		if !r.Mine(ci) {
			continue
		}
		if r.TimeUp() {
			r.Cap("time", "stopped before all configurations of this shard were explored")
			break
		}
		r.NoteCurrent(cfg.String())
		cfg := cfg
		x := &explorer{cfg: cfg, seen: map[string]bool{}}
		x.report = func(path []event, msg string) {
			r.Violation(strings.SplitN(msg, ":", 2)[0]+"|"+cfg.String(), msg+" ["+cfg.String()+"]", caseT{Config: cfg, Path: path, Msg: msg})
		}
		w := x.build(nil)
		x.seen[w.key()] = true
		x.states = 1
		x.dfs(nil, w)
		r.Add("configurations", 1)
		r.Add("states", int64(x.states))
		r.Add("transitions", int64(x.trans))
		r.Add("traces_validated_against_impl", int64(x.trans))
		r.Add("terminal_states", int64(x.terminals))
		r.Max("max_running_at_once", int64(x.maxParked))
		if x.maxParked >= 2 {
			r.Add("configs_with_two_handlers_running_at_once", 1)
		}
		r.Add("distinct_nontrivial", 1)
		r.Distinct("states_per_config", fmt.Sprint(x.states))
		if r.WantSample() && x.states > 30 {
			r.Sample(map[string]interface{}{"config": cfg.String(), "states": x.states, "transitions": x.trans})
		}
	}
	r.Add("evaluations", r.Count("transitions"))
	r.Finish("every multiset of <= max_tasks tasks over the kind menu (each entry at most twice) that contains at least one pair the property relates, as independent changes and (size <= 3) with one wait edge, x every schedule over {Ensure(every visiting order of the startable tasks), Complete(t)} with state dedup; the exclusion invariant is evaluated on the set of running handlers after every step; terminal states must have every task Done; every configuration is non-trivial by construction (contains a colliding pair)")
}
