// C38 — accepted gadget volumes lay out into disjoint structures.
//
// Exhaustive enumeration of gadget.yaml volume definitions built from a small colliding alphabet (sizes,
// min-sizes, explicit/implicit/overlapping offsets, roles, bare/filesystem types, offset-write, raw content
// images that do / do not fit, with image file size, declared content size and content offset as independent dimensions). Every definition goes through the real gadget.InfoFromGadgetYaml; every accepted
// one is laid out with the real gadget.LayoutVolume(vol, gadget.OnDiskStructsFromGadget(vol)) — the image-build
// path — and the result is checked against the statement (offsets non-negative, increasing, structures pairwise
// disjoint, content inside its structure, offset-write targets inside the volume) and against an independent
// placement/acceptance reference.
package c38_test

import (
	"encoding/json"
	"fmt"
	"os"
	"path/filepath"
	"runtime/debug"
	"sort"
	"strings"
	"sync"
	"sync/atomic"
	"testing"
	"time"

	"github.com/snapcore/snapd/gadget"
	"github.com/snapcore/snapd/gadget/quantity"
	eng "github.com/snapcore/snapd/verifengine"
)

const (
	kib = 1024
	mib = 1024 * 1024
)

// ---- alphabets (index = letter) ----

const (
	kMBR  = 0 // role mbr, type bare
	kBare = 1 // type bare, no role
	kBoot = 2 // role system-boot, hybrid partition type, vfat
	kData = 3 // role system-data, hybrid partition type, ext4
)

var kindNames = []string{"mbr", "bare", "boot", "data"}

var sizes = []uint64{446, 1 * mib, 2 * mib, 4 * mib}

// min-size: 0 unset, 1 half the size, 2 twice the size (invalid)
var minNames = []string{"", "half", "double"}

// offset: 0 implicit, then explicit values (1.5 MiB is the "overlapping value": inside a 1 MiB structure at 1 MiB)
var offsets = []int64{-1, 0, 1 * mib, 1*mib + 512*kib, 2 * mib}

// offset-write: 0 none; absolute values around the boundaries the alphabet produces; relative to a structure
type owDef struct {
	rel int // -1 absolute, else index of the structure it is relative to
	off uint64
}

var offsetWrites = []owDef{{-2, 0}, {-1, 0}, {-1, 442}, {-1, 443}, {-1, 2*mib - 4}, {-1, 2*mib - 3}, {-1, 4 * mib}, {0, 0}, {0, 442}, {0, 443}, {1, 0}}

// content of a bare structure, in terms of its size S. Image FILE size, DECLARED content size and content
// offset are independent dimensions.
type imgDef struct {
	num, den int   // image file size = S*num/den + add
	add      int64 //
	declared int   // 0: no size; 1: declared = file size; 2: file size - 1 (too small for the image); 3: file size + S/4; 4: file size + S/2
	offset   int64 // -1 implicit (after the previous content); else explicit offset = S*offNum/offDen + offset (offDen 0: just offset)
	offNum   int
	offDen   int
}

// legacy families (index 0..7); the generated product families follow (see init)
var contents = [][]imgDef{
	nil,
	{{1, 1, 0, 0, -1, 0, 0}}, // exactly fills the structure
	{{1, 1, 1, 0, -1, 0, 0}}, // one byte too large
	{{1, 2, 0, 0, -1, 0, 0}, {1, 2, 0, 0, -1, 0, 0}}, // two halves
	{{1, 2, 0, 0, -1, 0, 0}, {1, 2, 1, 0, -1, 0, 0}}, // second one overflows by one byte
	{{1, 1, 0, 0, 1, 0, 0}},                          // fills the structure but is shifted by one byte
	{{1, 2, 0, 2, -1, 0, 0}},                         // declared size smaller than the image
	{{1, 2, 0, 1, -1, 0, 0}, {1, 2, 0, 1, 0, 0, 0}},  // second image explicitly placed over the first
}

const legacyFamilies = 8

// index ranges [from, to) into contents of the generated families
var (
	fam1From, fam1To   int // one content entry, full entry alphabet
	fam2From, fam2To   int // two entries, full entry alphabet squared
	fam3From, fam3To   int // three entries, reduced entry alphabet cubed
	entryFull, entryRd []imgDef
)

// entry alphabet: file size {S/4, S/2, S, S+1} x declared {absent, = file, file-1, file+S/4, file+S/2} x
// offset {implicit, 0, 1, S/2, 3S/4}. Depending on the start, file+S/4 / file+S/2 is a declared size that still fits,
// exactly fills what is left of the structure, or reaches beyond the structure's end while the file alone fits.
func init() {
	type fs struct {
		num, den int
		add      int64
	}
	type ofs struct {
		off      int64
		num, den int
	}
	mk := func(files []fs, decls []int, offs []ofs) []imgDef {
		var res []imgDef
		for _, f := range files {
			for _, d := range decls {
				for _, o := range offs {
					res = append(res, imgDef{f.num, f.den, f.add, d, o.off, o.num, o.den})
				}
			}
		}
		return res
	}
	entryFull = mk([]fs{{1, 4, 0}, {1, 2, 0}, {1, 1, 0}, {1, 1, 1}}, []int{0, 1, 2, 3, 4}, []ofs{{-1, 0, 0}, {0, 0, 0}, {1, 0, 0}, {0, 1, 2}, {0, 3, 4}})
	entryRd = mk([]fs{{1, 4, 0}, {1, 2, 0}}, []int{0, 1, 3, 4}, []ofs{{-1, 0, 0}, {0, 0, 0}, {0, 1, 2}, {0, 3, 4}})
	if len(contents) != legacyFamilies {
		panic("legacy families")
	}
	fam1From = len(contents)
	for _, a := range entryFull {
		contents = append(contents, []imgDef{a})
	}
	fam1To, fam2From = len(contents), len(contents)
	for _, a := range entryFull {
		for _, b := range entryFull {
			contents = append(contents, []imgDef{a, b})
		}
	}
	fam2To, fam3From = len(contents), len(contents)
	for _, a := range entryRd {
		for _, b := range entryRd {
			for _, c := range entryRd {
				contents = append(contents, []imgDef{a, b, c})
			}
		}
	}
	fam3To = len(contents)
}

type sdef struct {
	Kind    int `json:"kind"`
	Size    int `json:"size"`
	Min     int `json:"min"`
	Off     int `json:"off"`
	OW      int `json:"ow"`
	Content int `json:"content"`
}

type vcase struct {
	Schema string `json:"schema"`
	S      []sdef `json:"structures"`
	Yaml   string `json:"yaml,omitempty"`
}

func (s sdef) size() uint64 { return sizes[s.Size] }
func (s sdef) minSize() uint64 {
	switch s.Min {
	case 1:
		return s.size() / 2
	case 2:
		return s.size() * 2
	}
	return s.size()
}
func (s sdef) fixed() bool { return s.minSize() == s.size() }

func (d imgDef) imageSize(S uint64) uint64 {
	return uint64(int64(S*uint64(d.num)/uint64(d.den)) + d.add)
}

// declSize is the declared content size (ok false: no size declared)
func (d imgDef) declSize(S uint64) (sz uint64, ok bool) {
	f := d.imageSize(S)
	switch d.declared {
	case 1:
		return f, true
	case 2:
		return f - 1, true
	case 3:
		return f + S/4, true
	case 4:
		return f + S/2, true
	}
	return 0, false
}

// start is the explicit content offset (ok false: implicit, after the previous content)
func (d imgDef) start(S uint64) (st uint64, ok bool) {
	if d.offset < 0 {
		return 0, false
	}
	st = uint64(d.offset)
	if d.offDen != 0 {
		st += S * uint64(d.offNum) / uint64(d.offDen)
	}
	return st, true
}

func describeContent(ct int, S uint64) string {
	if ct < legacyFamilies {
		return fmt.Sprintf("content#%d", ct)
	}
	var p []string
	for _, d := range contents[ct] {
		t := fmt.Sprintf("file=%d", d.imageSize(S))
		if sz, ok := d.declSize(S); ok {
			t += fmt.Sprintf("/size=%d", sz)
		}
		if st, ok := d.start(S); ok {
			t += fmt.Sprintf("@%d", st)
		}
		p = append(p, t)
	}
	return "content{" + strings.Join(p, ";") + "}"
}

func (c vcase) short() string {
	var p []string
	for _, s := range c.S {
		t := fmt.Sprintf("%s:%d", kindNames[s.Kind], s.size())
		if s.Min != 0 {
			t += "/min-" + minNames[s.Min]
		}
		if s.Off != 0 {
			t += fmt.Sprintf("@%d", offsets[s.Off])
		}
		if s.OW != 0 {
			w := offsetWrites[s.OW]
			if w.rel >= 0 {
				t += fmt.Sprintf(",ow=s%d+%d", w.rel, w.off)
			} else {
				t += fmt.Sprintf(",ow=%d", w.off)
			}
		}
		if s.Content != 0 {
			t += "," + describeContent(s.Content, s.size())
		}
		p = append(p, t)
	}
	return c.Schema + "[" + strings.Join(p, " ") + "]"
}

func (c vcase) yaml() string {
	var b strings.Builder
	fmt.Fprintf(&b, "volumes:\n  pc:\n    schema: %s\n    bootloader: grub\n    structure:\n", c.Schema)
	for i, s := range c.S {
		fmt.Fprintf(&b, "      - name: s%d\n", i)
		switch s.Kind {
		case kMBR:
			b.WriteString("        type: bare\n        role: mbr\n")
		case kBare:
			b.WriteString("        type: bare\n")
		case kBoot:
			b.WriteString("        type: EF,C12A7328-F81F-11D2-BA4B-00A0C93EC93B\n        role: system-boot\n        filesystem: vfat\n")
		case kData:
			b.WriteString("        type: 83,0FC63DAF-8483-4772-8E79-3D69D8477DE4\n        role: system-data\n        filesystem: ext4\n")
		}
		fmt.Fprintf(&b, "        size: %d\n", s.size())
		if s.Min != 0 {
			fmt.Fprintf(&b, "        min-size: %d\n", s.minSize())
		}
		if s.Off != 0 {
			fmt.Fprintf(&b, "        offset: %d\n", offsets[s.Off])
		}
		if s.OW != 0 {
			w := offsetWrites[s.OW]
			if w.rel >= 0 {
				fmt.Fprintf(&b, "        offset-write: s%d+%d\n", w.rel, w.off)
			} else {
				fmt.Fprintf(&b, "        offset-write: %d\n", w.off)
			}
		}
		if s.Content != 0 {
			b.WriteString("        content:\n")
			for _, d := range contents[s.Content] {
				isz := d.imageSize(s.size())
				fmt.Fprintf(&b, "          - image: img-%d\n", isz)
				if dsz, ok := d.declSize(s.size()); ok {
					fmt.Fprintf(&b, "            size: %d\n", dsz)
				}
				if st, ok := d.start(s.size()); ok {
					fmt.Fprintf(&b, "            offset: %d\n", st)
				}
			}
		}
	}
	return b.String()
}

// ---- reference ----

type refLayout struct {
	start   []uint64 // by yaml index
	perErr  string   // a per-structure / mbr rule is broken
	overlap bool
	owBad   bool // an offset-write target is certainly outside the volume (or refers to the wrong structure)
	owGray  bool // target inside the laid-out volume but beyond the volume's minimum size
	fits    bool // all raw content fits its structure without overlap
	cov     int
	content [][]civ // by yaml index of the structure, in declaration order: reference extent of each content relative to the structure
}

type civ struct{ a, b uint64 }

// coverage of the content dimensions (counted on accepted definitions)
const (
	covDeclLarger = 1 << iota // some content declares a size larger than its image file
	covDeclBeyond             // ... and the file alone would fit at its start, but the declared size reaches beyond the structure's end
	covExplicit               // some content has an explicit offset
	covMulti                  // a structure with more than one content
)

// reference placement: explicit offsets are respected; a structure without offset follows the previous one (in yaml
// order); a non-mbr structure is not placed below 1 MiB implicitly when the previous end is well known.
func reference(c vcase) refLayout {
	n := len(c.S)
	r := refLayout{start: make([]uint64, n), fits: true, content: make([][]civ, n)}
	known := make([]bool, n) // is the start offset fixed by the definition (explicit, or following a fixed-size chain)?
	prevEnd := uint64(0)
	prevKnown := true
	for i, s := range c.S {
		known[i] = s.Off != 0 || prevKnown
		if s.Min == 2 {
			r.perErr = "min-size bigger than size"
		}
		if s.Kind == kMBR && s.size() > 446 {
			r.perErr = "mbr larger than 446"
		}
		switch {
		case s.Off != 0:
			r.start[i] = uint64(offsets[s.Off])
		case prevKnown && s.Kind != kMBR && prevEnd < 1*mib:
			r.start[i] = 1 * mib
		default:
			r.start[i] = prevEnd
		}
		if s.Kind == kMBR && (r.start[i] != 0 || (s.Off == 0 && !prevKnown)) {
			r.perErr = "mbr not at offset 0"
		}
		prevEnd = r.start[i] + s.size()
		prevKnown = known[i] && s.fixed() // the end is well known only if the start is and the size is fixed
	}
	// statement: pairwise disjoint (order free)
	for i := 0; i < n; i++ {
		for j := i + 1; j < n; j++ {
			a0, a1 := r.start[i], r.start[i]+c.S[i].size()
			b0, b1 := r.start[j], r.start[j]+c.S[j].size()
			if a0 < b1 && b0 < a1 {
				r.overlap = true
			}
		}
	}
	// offset-write
	// volEnd: end of the volume with every structure at its full size; volMinEnd: end of the smallest volume
	// the definition allows (structures whose start is not fixed by the definition packed at their min-size)
	first := 0
	order := make([]int, n)
	for i := range c.S {
		order[i] = i
		if r.start[i] < r.start[first] {
			first = i
		}
	}
	sort.SliceStable(order, func(a, b int) bool { return r.start[order[a]] < r.start[order[b]] })
	volEnd, volMinEnd := uint64(0), uint64(0)
	for _, i := range order {
		if e := r.start[i] + c.S[i].size(); e > volEnd {
			volEnd = e
		}
		if known[i] {
			volMinEnd = r.start[i] + c.S[i].minSize()
		} else {
			volMinEnd += c.S[i].minSize()
		}
	}
	for _, s := range c.S {
		if s.OW == 0 {
			continue
		}
		w := offsetWrites[s.OW]
		if w.rel >= 0 {
			if w.rel >= n || w.rel != first || r.start[first] != 0 || w.off+4 > c.S[first].minSize() {
				r.owBad = true
			}
			continue
		}
		if w.off+4 > volEnd {
			r.owBad = true
		} else if w.off+4 > volMinEnd {
			r.owGray = true
		}
	}
	// raw content
	for si, s := range c.S {
		if s.Content == 0 {
			continue
		}
		var ivs []civ
		prev := uint64(0)
		for _, d := range contents[s.Content] {
			isz := d.imageSize(s.size())
			sz := isz // the laid-out size: the declared size when there is one, else the size of the image file
			if dsz, ok := d.declSize(s.size()); ok {
				if dsz < isz {
					r.fits = false // declared size smaller than the image
				}
				sz = dsz
			}
			st := prev
			if est, ok := d.start(s.size()); ok {
				st = est
				r.cov |= covExplicit
			}
			if sz > isz {
				r.cov |= covDeclLarger
				if st+isz <= s.size() && st+sz > s.size() {
					r.cov |= covDeclBeyond
				}
			}
			if st+sz > s.size() {
				r.fits = false
			}
			ivs = append(ivs, civ{st, st + sz})
			prev = st + sz
		}
		for i := range ivs {
			for j := i + 1; j < len(ivs); j++ {
				if ivs[i].a < ivs[j].b && ivs[j].a < ivs[i].b {
					r.fits = false
				}
			}
		}
		r.content[si] = ivs
		if len(ivs) > 1 {
			r.cov |= covMulti
		}
	}
	return r
}

// ---- judging one definition ----

type verdict struct{ key, msg string }

type outcome struct {
	accepted bool
	laidOut  bool
	class    string
	cov      int
	bad      []verdict
}

var gadgetRoot string

// judge evaluates one definition; a panic of the code under test is a violation with that definition.
func judge(c vcase) (out outcome) {
	defer func() {
		if e := recover(); e != nil {
			out.class = "panic"
			out.bad = append(out.bad, verdict{"panic", fmt.Sprintf("%s: the code under test panicked: %v", c.short(), e)})
		}
	}()
	return judge1(c)
}

func judge1(c vcase) outcome {
	var out outcome
	ref := reference(c)
	y := c.yaml()
	info, err := gadget.InfoFromGadgetYaml([]byte(y), nil)
	refAccept := ref.perErr == "" && !ref.overlap && !ref.owBad
	if err != nil {
		out.class = "rejected"
		if refAccept && !ref.owGray {
			out.bad = append(out.bad, verdict{"valid-volume-rejected:" + errClass(err), fmt.Sprintf("%s rejected (%v) although the reference finds per-structure rules satisfied, structures %v pairwise disjoint and offset-writes inside the volume", c.short(), err, ref.start)})
		}
		return out
	}
	out.accepted = true
	out.cov = ref.cov
	vol := info.Volumes["pc"]
	if vol == nil || len(vol.Structure) != len(c.S) {
		out.bad = append(out.bad, verdict{"accepted-volume-mangled", fmt.Sprintf("%s accepted but the volume has %d structures", c.short(), len(vol.Structure))})
		return out
	}
	if ref.perErr != "" {
		out.bad = append(out.bad, verdict{"invalid-structure-accepted:" + strings.ReplaceAll(ref.perErr, " ", "-"), fmt.Sprintf("%s accepted although %s", c.short(), ref.perErr)})
	}
	lv, lerr := gadget.LayoutVolume(vol, gadget.OnDiskStructsFromGadget(vol), &gadget.LayoutOptions{GadgetRootDir: gadgetRoot, SkipResolveContent: true})
	if lerr != nil {
		out.class = "accepted-layout-refused"
		if ref.fits {
			out.bad = append(out.bad, verdict{"layout-failed", fmt.Sprintf("%s accepted and all content fits, but LayoutVolume failed: %v", c.short(), lerr)})
		}
		// still judge the structure placement the layout is computed from
		lv = nil
	} else {
		out.laidOut = true
		out.class = "accepted-laid-out"
		if !ref.fits {
			out.bad = append(out.bad, verdict{"unfitting-content-laid-out", fmt.Sprintf("%s: raw content does not fit its structure (or overlaps / is bigger than declared) but LayoutVolume succeeded", c.short())})
		}
	}
	// the statement, on the laid-out structures (or, if content made the layout fail, on the on-disk placement)
	type placed struct {
		yaml        int
		start, size uint64
		content     []gadget.LaidOutContent
	}
	var ps []placed
	if lv != nil {
		for _, ls := range lv.LaidOutStructure {
			ps = append(ps, placed{ls.VolumeStructure.YamlIndex, uint64(ls.StartOffset), uint64(ls.Size), ls.LaidOutContent})
		}
	} else {
		ods := gadget.OnDiskStructsFromGadget(vol)
		for i := range vol.Structure {
			d := ods[vol.Structure[i].YamlIndex]
			ps = append(ps, placed{vol.Structure[i].YamlIndex, uint64(d.StartOffset), uint64(d.Size), nil})
		}
	}
	desc := func() string {
		var s []string
		for _, p := range ps {
			s = append(s, fmt.Sprintf("s%d[%d,+%d)", p.yaml, p.start, p.size))
		}
		return strings.Join(s, " ")
	}
	seen := map[int]bool{}
	volEnd := uint64(0)
	for i, p := range ps {
		if p.yaml < 0 || p.yaml >= len(c.S) || seen[p.yaml] {
			out.bad = append(out.bad, verdict{"laid-out-structure-set-wrong", fmt.Sprintf("%s: laid out %s", c.short(), desc())})
			return out
		}
		seen[p.yaml] = true
		if p.start >= 1<<62 || p.size >= 1<<62 {
			out.bad = append(out.bad, verdict{"negative-offset", fmt.Sprintf("%s: laid out %s (an offset or size wrapped around)", c.short(), desc())})
			return out
		}
		if p.size != c.S[p.yaml].size() {
			out.bad = append(out.bad, verdict{"laid-out-size-differs", fmt.Sprintf("%s: laid out %s but s%d declares size %d", c.short(), desc(), p.yaml, c.S[p.yaml].size())})
		}
		if i > 0 && p.start < ps[i-1].start {
			out.bad = append(out.bad, verdict{"not-increasing", fmt.Sprintf("%s: laid out %s: offsets are not in increasing order", c.short(), desc())})
		}
		if e := p.start + p.size; e > volEnd {
			volEnd = e
		}
	}
	overlapReported := false
	for i := range ps {
		for j := i + 1; j < len(ps); j++ {
			if ps[i].start < ps[j].start+ps[j].size && ps[j].start < ps[i].start+ps[i].size && !overlapReported {
				overlapReported = true
				out.bad = append(out.bad, verdict{"structures-overlap", fmt.Sprintf("%s accepted but laid out %s: s%d and s%d overlap", c.short(), desc(), ps[i].yaml, ps[j].yaml)})
			}
		}
	}
	// content, from the returned LaidOutContent values with their laid-out sizes: inside its structure, contents of one
	// structure pairwise disjoint (order-free), at least as big as the image file, none lost; beyond the statement:
	// extent equal to the reference (declared size when there is one, else the file size; explicit offset or the
	// end of the previously declared content)
	for _, p := range ps {
		cs := p.content
		for k, lc := range cs {
			a, b := uint64(lc.StartOffset), uint64(lc.StartOffset)+uint64(lc.Size)
			if uint64(lc.StartOffset) >= 1<<62 || uint64(lc.Size) >= 1<<62 {
				out.bad = append(out.bad, verdict{"content-offset-wrapped", fmt.Sprintf("%s: content %v of s%d: offset or size wrapped around", c.short(), lc, p.yaml)})
				continue
			}
			if a < p.start || b > p.start+p.size {
				out.bad = append(out.bad, verdict{"content-outside-structure", fmt.Sprintf("%s: content %v [%d,%d) is not inside s%d [%d,%d)", c.short(), lc, a, b, p.yaml, p.start, p.start+p.size)})
			}
			for k2 := k + 1; k2 < len(cs); k2++ {
				a2, b2 := uint64(cs[k2].StartOffset), uint64(cs[k2].StartOffset)+uint64(cs[k2].Size)
				if a < b2 && a2 < b {
					out.bad = append(out.bad, verdict{"content-overlap", fmt.Sprintf("%s: contents %v [%d,%d) and %v [%d,%d) of s%d overlap", c.short(), lc, a, b, cs[k2], a2, b2, p.yaml)})
				}
			}
			var isz uint64
			fmt.Sscanf(lc.Image, "img-%d", &isz)
			if uint64(lc.Size) < isz {
				out.bad = append(out.bad, verdict{"content-truncated", fmt.Sprintf("%s: content %v of s%d gets %d bytes for an image of %d", c.short(), lc, p.yaml, lc.Size, isz)})
			}
			if rc := ref.content[p.yaml]; ref.fits && lc.Index >= 0 && lc.Index < len(rc) {
				if ra, rb := p.start+rc[lc.Index].a, p.start+rc[lc.Index].b; a != ra || b != rb {
					out.bad = append(out.bad, verdict{"content-placement-differs", fmt.Sprintf("%s: content #%d %v of s%d laid out at [%d,%d), the reference places it at [%d,%d)", c.short(), lc.Index, lc, p.yaml, a, b, ra, rb)})
				}
			}
		}
		if lv != nil && len(p.content) != len(contents[c.S[p.yaml].Content]) {
			out.bad = append(out.bad, verdict{"content-lost", fmt.Sprintf("%s: s%d declares %d images, %d laid out", c.short(), p.yaml, len(contents[c.S[p.yaml].Content]), len(p.content))})
		}
	}
	// offset-write targets inside the volume
	byYaml := map[int]placed{}
	for _, p := range ps {
		byYaml[p.yaml] = p
	}
	for i, s := range c.S {
		if s.OW == 0 {
			continue
		}
		w := offsetWrites[s.OW]
		target := w.off
		if w.rel >= 0 {
			base, ok := byYaml[w.rel]
			if !ok {
				out.bad = append(out.bad, verdict{"offset-write-dangling", fmt.Sprintf("%s accepted but s%d's offset-write refers to a structure that does not exist", c.short(), i)})
				continue
			}
			target = base.start + w.off
			if target+4 > base.start+base.size {
				out.bad = append(out.bad, verdict{"offset-write-outside-structure", fmt.Sprintf("%s accepted but s%d's offset-write target [%d,%d) is outside the referred structure s%d [%d,%d)", c.short(), i, target, target+4, w.rel, base.start, base.start+base.size)})
			}
		}
		if target+4 > volEnd {
			out.bad = append(out.bad, verdict{"offset-write-outside-volume", fmt.Sprintf("%s accepted but s%d's offset-write target [%d,%d) is outside the volume (laid out %s, end %d)", c.short(), i, target, target+4, desc(), volEnd)})
		}
	}
	// placement reference (beyond the statement): explicit offsets respected, implicit ones follow the rule
	for _, p := range ps {
		if p.start != ref.start[p.yaml] {
			kind := "implicit"
			if c.S[p.yaml].Off != 0 {
				kind = "explicit"
			}
			out.bad = append(out.bad, verdict{"placement-differs:" + kind, fmt.Sprintf("%s: laid out %s, the reference places s%d at %d", c.short(), desc(), p.yaml, ref.start[p.yaml])})
			break
		}
	}
	// every laid-out start offset lies in the interval the gadget itself declares valid
	for i := range vol.Structure {
		p := byYaml[vol.Structure[i].YamlIndex]
		if err := gadget.CheckValidStartOffset(quantity.Offset(p.start), vol.Structure, i); err != nil {
			out.bad = append(out.bad, verdict{"start-offset-not-valid", fmt.Sprintf("%s: laid out %s but for s%d: %v", c.short(), desc(), p.yaml, err)})
			break
		}
	}
	return out
}

func errClass(err error) string {
	m := err.Error()
	switch {
	case strings.Contains(m, "overlaps"):
		return "overlap"
	case strings.Contains(m, "wants to write offset"), strings.Contains(m, "refers to"):
		return "offset-write"
	case strings.Contains(m, "mbr"):
		return "mbr"
	case strings.Contains(m, "min-size"):
		return "min-size"
	}
	return "other"
}

// ---- enumeration ----

type space struct {
	name                               string
	schemas                            []string
	n                                  int // exactly n structures
	kinds, sizes, mins, offs, ows, cts []int
	pos                                [][]sdef // optional: the structure alphabet per position (overrides the product above)
}

// positions returns the structure alphabet of every position
func (sp space) positions() [][]sdef {
	if sp.pos != nil {
		if len(sp.pos) != sp.n {
			eng.HarnessError("space %s: %d positions for %d structures", sp.name, len(sp.pos), sp.n)
		}
		return sp.pos
	}
	l := sp.letters()
	res := make([][]sdef, sp.n)
	for i := range res {
		res[i] = l
	}
	return res
}

func (sp space) definitions() int {
	t := len(sp.schemas)
	for _, l := range sp.positions() {
		t *= len(l)
	}
	return t
}

func (sp space) letters() []sdef {
	var res []sdef
	for _, k := range sp.kinds {
		for _, s := range sp.sizes {
			for _, m := range sp.mins {
				for _, o := range sp.offs {
					for _, w := range sp.ows {
						for _, ct := range sp.cts {
							if ct != 0 && k != kMBR && k != kBare {
								continue // raw content only in bare structures
							}
							res = append(res, sdef{k, s, m, o, w, ct})
						}
					}
				}
			}
		}
	}
	return res
}

func pow(b, e int) int {
	r := 1
	for i := 0; i < e; i++ {
		r *= b
	}
	return r
}

type witness struct {
	short string
	msg   string
	cas   vcase
	count int64
}

func explore(r *eng.Run, sp space) {
	pos := sp.positions()
	// work items: (schema, letter at the widest position); each item enumerates all completions
	wide := 0
	for k := range pos {
		if len(pos[k]) > len(pos[wide]) {
			wide = k
		}
	}
	L := len(pos[wide])
	rest := 1
	for k := range pos {
		if k != wide {
			rest *= len(pos[k])
		}
	}
	total := rest * L
	var mu sync.Mutex
	wit := map[string]*witness{}
	classes := map[string]int64{}
	var evals, accepted, laid, nontrivial, done int64
	var cov, covLaid [4]int64
	var stop int32
	items := len(sp.schemas) * L
	eng.ParallelFor(items, func(it int) {
		if atomic.LoadInt32(&stop) != 0 {
			return
		}
		schema := sp.schemas[it/L]
		var le, la, ll, ln int64
		lc := map[string]int64{}
		var lcov, lcovLaid [4]int64
		c := vcase{Schema: schema, S: make([]sdef, sp.n)}
		c.S[wide] = pos[wide][it%L]
		for x := 0; x < rest; x++ {
			if x%4096 == 0 && r.TimeUp() {
				atomic.StoreInt32(&stop, 1)
				break
			}
			y := x
			for k := 0; k < sp.n; k++ {
				if k == wide {
					continue
				}
				c.S[k] = pos[k][y%len(pos[k])]
				y /= len(pos[k])
			}
			out := judge(c)
			le++
			lc[out.class]++
			if out.accepted {
				la++
				if sp.n >= 2 {
					ln++
				}
			}
			if out.laidOut {
				ll++
			}
			if out.accepted && out.cov != 0 {
				for b := 0; b < 4; b++ {
					if out.cov&(1<<b) != 0 {
						lcov[b]++
						if out.laidOut {
							lcovLaid[b]++
						}
					}
				}
			}
			if len(out.bad) != 0 {
				sh := c.short()
				mu.Lock()
				for _, v := range out.bad {
					w := wit[v.key]
					if w == nil {
						w = &witness{}
						wit[v.key] = w
					}
					w.count++
					if w.short == "" || len(sh) < len(w.short) || (len(sh) == len(w.short) && sh < w.short) {
						w.short, w.msg = sh, v.msg
						w.cas = vcase{Schema: c.Schema, S: append([]sdef(nil), c.S...), Yaml: c.yaml()}
					}
				}
				mu.Unlock()
			} else if out.laidOut && sp.n >= 2 && r.WantSample() && (x+it)%977 == 0 {
				r.Sample(vcase{Schema: c.Schema, S: append([]sdef(nil), c.S...), Yaml: c.yaml()})
			}
		}
		atomic.AddInt64(&evals, le)
		atomic.AddInt64(&accepted, la)
		atomic.AddInt64(&laid, ll)
		atomic.AddInt64(&nontrivial, ln)
		atomic.AddInt64(&done, 1)
		for b := 0; b < 4; b++ {
			atomic.AddInt64(&cov[b], lcov[b])
			atomic.AddInt64(&covLaid[b], lcovLaid[b])
		}
		mu.Lock()
		for k, v := range lc {
			classes[k] += v
		}
		mu.Unlock()
	})
	r.Add("evaluations", evals)
	r.Add("evaluations_"+sp.name, evals)
	r.Add("volumes_accepted", accepted)
	r.Add("volumes_laid_out", laid)
	r.Add("distinct_nontrivial", nontrivial)
	for b, name := range []string{"content_declared_larger_than_file", "content_declared_beyond_structure_while_file_fits", "content_explicit_offset", "content_several_in_one_structure"} {
		r.Add("accepted_with_"+name, cov[b])
		r.Add("laid_out_with_"+name, covLaid[b])
	}
	for k, v := range classes {
		r.Distinct("outcome", k)
		r.Add("outcome_"+k, v)
	}
	keys := make([]string, 0, len(wit))
	for k := range wit {
		keys = append(keys, k)
	}
	sort.Strings(keys)
	for _, k := range keys {
		w := wit[k]
		r.Add("violating_definitions", w.count)
		r.Violation(k, fmt.Sprintf("%s [smallest definition of this class; %d definitions of this class in space %s]", w.msg, w.count, sp.name), w.cas)
	}
	if stop != 0 {
		r.Cap("time", fmt.Sprintf("space %s: %d of %d definitions evaluated", sp.name, evals, int64(total)*int64(len(sp.schemas))))
	}
}

func makeImages(dir string) {
	need := map[uint64]bool{}
	for _, S := range sizes {
		for _, ct := range contents {
			for _, d := range ct {
				need[d.imageSize(S)] = true
			}
		}
	}
	for sz := range need {
		f, err := os.Create(filepath.Join(dir, fmt.Sprintf("img-%d", sz)))
		if err != nil {
			eng.HarnessError("cannot create image: %v", err)
		}
		if err := f.Truncate(int64(sz)); err != nil {
			eng.HarnessError("cannot size image: %v", err)
		}
		f.Close()
	}
}

func TestC38(t *testing.T) {
	debug.SetGCPercent(400)
	r := eng.Start("C38", "exploration", 300*time.Second, 12*time.Minute)
	r.Assume("layout = gadget.LayoutVolume(vol, gadget.OnDiskStructsFromGadget(vol)) with SkipResolveContent: the image-build path, structures at their full size",
		"reference placement: explicit offsets respected; a structure without offset follows the previous one in yaml order, a non-mbr one not below 1 MiB when the previous end is well known",
		"raw content images are real sparse files (named img-<file size>) in a gadget dir under the work dir; the declared content size is independent of the file size; filesystem structures carry no content",
		"content reference (beyond the statement): laid-out content size = declared size when there is one, else the image file size; start = explicit offset, else the end of the previously declared content",
		"acceptance reference (beyond the statement, calibrated on the unchanged tree): a definition whose structures are individually valid, pairwise disjoint in the reference placement and whose offset-writes lie inside the minimum volume must be accepted")
	// real (sparse) image files of every file size of the alphabet, in a gadget dir under the engine's work dir
	var err error
	if err = os.MkdirAll(eng.WorkDir(), 0755); err == nil {
		gadgetRoot, err = os.MkdirTemp(eng.WorkDir(), "c38-gadget-")
	}
	if err != nil {
		eng.HarnessError("cannot create the gadget dir: %v", err)
	}
	finish := func(rule string) {
		os.RemoveAll(gadgetRoot)
		r.Finish(rule)
	}
	makeImages(gadgetRoot)

	if rc := r.ReplayCase(); rc != nil {
		var c vcase
		if err := json.Unmarshal(rc, &c); err != nil || len(c.S) == 0 {
			eng.HarnessError("bad replay case: %v", err)
		}
		fmt.Printf("replay %s\n%s", c.short(), c.yaml())
		for rep := 0; rep < 3; rep++ {
			out := judge(c)
			if rep == 0 {
				fmt.Printf("outcome: %s\n", out.class)
			}
			for _, v := range out.bad {
				if rep == 0 {
					fmt.Printf("  %s: %s\n", v.key, v.msg)
				}
				r.Violation(v.key, v.msg, c)
			}
		}
		finish("replay")
	}

	idx := func(n int) []int {
		res := make([]int, n)
		for i := range res {
			res[i] = i
		}
		return res
	}
	allKinds := idx(4)
	rng := func(from, to int) []int {
		var res []int
		for i := from; i < to; i++ {
			res = append(res, i)
		}
		return res
	}
	cat := func(ls ...[]sdef) []sdef {
		var res []sdef
		for _, l := range ls {
			res = append(res, l...)
		}
		return res
	}
	// content-size spaces: one "rich" bare structure whose content is the full product family (file size x declared
	// size x offset per entry, 1 and 2 entries: the entry is last / followed by implicit / followed by explicit-offset
	// content) next to one "plain" neighbour, in both orders.
	const (
		oImpl = 0 // indexes into offsets
		o1M   = 2
		o2M   = 4
	)
	fam12 := rng(fam1From, fam2To)
	richMBR := func(cts []int) []sdef {
		return space{kinds: []int{kMBR}, sizes: []int{0}, mins: []int{0}, offs: []int{oImpl}, ows: []int{0}, cts: cts}.letters()
	}
	richBare := func(sizes, mins, offs, cts []int) []sdef {
		return space{kinds: []int{kBare}, sizes: sizes, mins: mins, offs: offs, ows: []int{0}, cts: cts}.letters()
	}
	plainMBR := []sdef{{kMBR, 0, 0, oImpl, 0, 0}}
	plainFew := []sdef{{kBare, 1, 0, oImpl, 0, 0}, {kBare, 1, 0, o2M, 0, 0}, {kBoot, 1, 0, oImpl, 0, 0}, {kBare, 1, 0, oImpl, 0, 1}}
	plainMany := cat(space{kinds: []int{kBare}, sizes: []int{1}, mins: []int{0}, offs: []int{oImpl, o1M, o2M}, ows: []int{0}, cts: []int{0, 1}}.letters(),
		space{kinds: []int{kBoot}, sizes: []int{1}, mins: []int{0}, offs: []int{oImpl, o1M, o2M}, ows: []int{0}, cts: []int{0}}.letters())
	rich2 := richBare([]int{1, 2}, []int{0, 1}, []int{oImpl, o1M, o2M}, fam12)
	var spaces []space
	if r.Quick() {
		spaces = []space{
			{name: "geometry-1", schemas: []string{"gpt", "mbr"}, n: 1, kinds: allKinds, sizes: idx(4), mins: idx(3), offs: idx(5), ows: []int{0}, cts: []int{0}},
			{name: "geometry-2", schemas: []string{"gpt", "mbr"}, n: 2, kinds: allKinds, sizes: idx(4), mins: idx(3), offs: idx(5), ows: []int{0}, cts: []int{0}},
			{name: "geometry-3", schemas: []string{"gpt"}, n: 3, kinds: []int{kMBR, kBare, kBoot}, sizes: idx(3), mins: idx(2), offs: idx(4), ows: []int{0}, cts: []int{0}},
			{name: "offset-write-2", schemas: []string{"gpt"}, n: 2, kinds: []int{kMBR, kBare, kBoot}, sizes: idx(2), mins: idx(2), offs: idx(3), ows: idx(len(offsetWrites)), cts: []int{0}},
			{name: "content-2", schemas: []string{"gpt"}, n: 2, kinds: []int{kMBR, kBare, kBoot}, sizes: idx(2), mins: idx(2), offs: idx(3), ows: []int{0}, cts: idx(legacyFamilies)},
			{name: "content-size-2a", schemas: []string{"gpt"}, n: 2, pos: [][]sdef{cat(richMBR(fam12), rich2), plainFew}},
			{name: "content-size-2b", schemas: []string{"gpt"}, n: 2, pos: [][]sdef{cat(plainMBR, plainFew), rich2}},
			{name: "content-size-3entries-a", schemas: []string{"gpt"}, n: 2, pos: [][]sdef{cat(richMBR(rng(fam3From, fam3To)), richBare([]int{1}, []int{0}, []int{oImpl, o2M}, rng(fam3From, fam3To))), plainFew}},
			{name: "content-size-3entries-b", schemas: []string{"gpt"}, n: 2, pos: [][]sdef{cat(plainMBR, plainFew), richBare([]int{1}, []int{0}, []int{oImpl, o2M}, rng(fam3From, fam3To))}},
		}
	} else {
		spaces = []space{
			{name: "geometry-1", schemas: []string{"gpt", "mbr"}, n: 1, kinds: allKinds, sizes: idx(4), mins: idx(3), offs: idx(5), ows: []int{0}, cts: []int{0}},
			{name: "geometry-2", schemas: []string{"gpt", "mbr"}, n: 2, kinds: allKinds, sizes: idx(4), mins: idx(3), offs: idx(5), ows: []int{0}, cts: []int{0}},
			{name: "offset-write-3", schemas: []string{"gpt"}, n: 3, kinds: []int{kMBR, kBare}, sizes: idx(2), mins: idx(1), offs: idx(3), ows: idx(len(offsetWrites)), cts: []int{0}},
			{name: "content-3", schemas: []string{"gpt"}, n: 3, kinds: []int{kMBR, kBare, kBoot}, sizes: idx(2), mins: idx(1), offs: idx(3), ows: []int{0}, cts: idx(legacyFamilies)},
			{name: "content-size-2a", schemas: []string{"gpt"}, n: 2, pos: [][]sdef{cat(richMBR(fam12), rich2), plainMany}},
			{name: "content-size-2b", schemas: []string{"gpt"}, n: 2, pos: [][]sdef{cat(plainMBR, plainMany), rich2}},
			{name: "content-size-3entries-a", schemas: []string{"gpt"}, n: 2, pos: [][]sdef{cat(richMBR(rng(fam3From, fam3To)), richBare([]int{1}, []int{0}, []int{oImpl, o2M}, rng(fam3From, fam3To))), plainFew}},
			{name: "content-size-3entries-b", schemas: []string{"gpt"}, n: 2, pos: [][]sdef{cat(plainMBR, plainFew), richBare([]int{1}, []int{0}, []int{oImpl, o2M}, rng(fam3From, fam3To))}},
			{name: "content-size-mid-3", schemas: []string{"gpt"}, n: 3, pos: [][]sdef{cat(plainMBR, plainFew), richBare([]int{1}, []int{0}, []int{oImpl, o2M}, fam12), plainFew}},
			{name: "geometry-4", schemas: []string{"gpt"}, n: 4, kinds: []int{kMBR, kBare, kBoot}, sizes: idx(2), mins: idx(2), offs: idx(3), ows: []int{0}, cts: []int{0}},
			{name: "geometry-3", schemas: []string{"gpt"}, n: 3, kinds: allKinds, sizes: idx(4), mins: idx(3), offs: idx(5), ows: []int{0}, cts: []int{0}},
		}
	}
	bounds := map[string]interface{}{}
	for _, sp := range spaces {
		var L []int
		for _, l := range sp.positions() {
			L = append(L, len(l))
		}
		bounds[sp.name] = map[string]interface{}{"structures": sp.n, "schemas": sp.schemas, "structure_alphabet_per_position": L, "definitions": sp.definitions()}
		if r.TimeUp() {
			r.Cap("time_skipped", "space "+sp.name+" not started")
			continue
		}
		explore(r, sp)
	}
	r.Info("bounds", bounds)
	r.Info("alphabet", map[string]interface{}{"kinds": kindNames, "sizes": sizes, "min_size": []string{"unset", "half", "double(invalid)"}, "offsets": []string{"implicit", "0", "1MiB", "1.5MiB", "2MiB"},
		"offset_write": "none | absolute 0,442,443,2MiB-4,2MiB-3,4MiB | s0+0,s0+442,s0+443 | s1+0", "content": "none | fills | +1 byte | two halves | second half +1 | shifted by 1 | declared smaller than image | explicitly overlapping",
		"content_size_entry": "image file size {S/4, S/2, S, S+1} x declared size {absent, = file, file-1, file+S/4, file+S/2} x content offset {implicit (after the previous content), 0, 1, S/2, 3S/4}; families: every 1-entry and 2-entry sequence over the 100 entries (10 100); thorough also every 3-entry sequence over file {S/4, S/2} x declared {absent, = file, file+S/4, file+S/2} x offset {implicit, 0, S/2, 3S/4} (32 768)"})
	finish("every volume definition of exactly n structures over the per-space structure alphabet (kind x size x min-size x offset x offset-write x content) and schema is rendered to gadget.yaml, validated by InfoFromGadgetYaml and, if accepted, laid out with its content; the content-size spaces put one bare structure carrying every 1- and 2-entry content family (file size x declared size x offset per entry) before / after one plain neighbour; distinct_nontrivial = accepted definitions with at least two structures (each is laid out and checked pairwise)")
}
