// C23, part "tree": osutil.EnsureTreeState over the directories ".", "a" and "b/n" of a base directory.
package c23_test

import (
	"encoding/json"
	"fmt"
	"os"
	"path/filepath"
	"sort"
	"strings"
	"sync"

	"github.com/snapcore/snapd/osutil"
	eng "github.com/snapcore/snapd/verifengine"
)

var treeGlobs = []string{"snap.foo.*"}

const (
	tx     = "snap.foo.x"
	ty     = "snap.foo.y"
	tOther = "snap.foobar.txt" // unrelated
)

// treeCase encodes the initial layout and the desired content.
type treeCase struct {
	Dot int `json:"dot"` // ./snap.foo.x: 0 absent, 1 v0, 2 other content
	// A: 0 "a" absent; 1..8 "a" exists with x in {absent,v0,other,non-empty dir} (A-1)/2 and unrelated file (A-1)%2; 9 "a" is a regular file
	A int `json:"a"`
	// B: 0 "b" absent; else bUnrelated=(B-1)%2, sub=(B-1)/2: 0 "b/n" absent; 1..6 "b/n" exists with x in {absent,v0,other} (sub-1)/2, unrelated (sub-1)%2
	B    int `json:"b"`
	WDot int `json:"want_dot"` // 0 not in content, 1 {x:v0}, 2 {x:missing ref}
	WA   int `json:"want_a"`   // 0 not in content, 1 {}, 2 {x:v0}, 3 {x:v1}, 4 {x:missing ref}, 5 {x:v0,y:v0}
	WB   int `json:"want_bn"`  // 0 not in content, 1 {}, 2 {x:v0}, 3 {x:missing ref}
}

const (
	nDot, nA, nB    = 3, 10, 15
	nWDot, nWA, nWB = 3, 6, 4
)

func (c treeCase) key() string {
	return fmt.Sprintf("tree:dot=%d:a=%d:b=%d:want=%d.%d.%d", c.Dot, c.A, c.B, c.WDot, c.WA, c.WB)
}

type treeModel struct {
	files    map[string]ent  // relative path -> regular file / symlink
	dirs     map[string]bool // relative dir paths (not ".")
	managed  map[string]bool // initial removable managed files (relative path)
	blockers map[string]bool // managed names occupied by a non-empty directory
}

func (c treeCase) initial() treeModel {
	m := treeModel{files: map[string]ent{}, dirs: map[string]bool{}, managed: map[string]bool{}, blockers: map[string]bool{}}
	reg := func(k int) ent {
		if k == 1 {
			return ent{Kind: "reg", Content: c0, Perm: 0644}
		}
		return ent{Kind: "reg", Content: c1, Perm: 0644}
	}
	if c.Dot != 0 {
		m.files[tx] = reg(c.Dot)
		m.managed[tx] = true
	}
	m.files["top-"+tOther] = ent{Kind: "reg", Content: "u", Perm: 0600}
	switch {
	case c.A == 9:
		m.files["a"] = ent{Kind: "reg", Content: "file-in-the-way", Perm: 0644}
	case c.A != 0:
		m.dirs["a"] = true
		xk, un := (c.A-1)/2, (c.A-1)%2
		switch xk {
		case 1, 2:
			m.files["a/"+tx] = reg(xk)
			m.managed["a/"+tx] = true
		case 3:
			m.dirs["a/"+tx] = true
			m.files["a/"+tx+"/keep"] = ent{Kind: "reg", Content: "k", Perm: 0644}
			m.blockers["a/"+tx] = true
		}
		if un == 1 {
			m.files["a/"+tOther] = ent{Kind: "reg", Content: "u", Perm: 0600}
		}
	}
	if c.B != 0 {
		m.dirs["b"] = true
		bun, sub := (c.B-1)%2, (c.B-1)/2
		if bun == 1 {
			m.files["b/"+tOther] = ent{Kind: "reg", Content: "u", Perm: 0600}
		}
		if sub != 0 {
			m.dirs["b/n"] = true
			xk, un := (sub-1)/2, (sub-1)%2
			if xk != 0 {
				m.files["b/n/"+tx] = reg(xk)
				m.managed["b/n/"+tx] = true
			}
			if un == 1 {
				m.files["b/n/"+tOther] = ent{Kind: "reg", Content: "u", Perm: 0600}
			}
		}
	}
	return m
}

// desired returns content keys -> name -> desired option (dMemV0, dMemV1, dRefMissing)
func (c treeCase) desired() map[string]map[string]int {
	res := map[string]map[string]int{}
	switch c.WDot {
	case 1:
		res["."] = map[string]int{tx: dMemV0}
	case 2:
		res["."] = map[string]int{tx: dRefMissing}
	}
	switch c.WA {
	case 1:
		res["a"] = map[string]int{}
	case 2:
		res["a"] = map[string]int{tx: dRefV0}
	case 3:
		res["a"] = map[string]int{tx: dMemV1}
	case 4:
		res["a"] = map[string]int{tx: dRefMissing}
	case 5:
		res["a"] = map[string]int{tx: dMemV0, ty: dMemV0}
	}
	switch c.WB {
	case 1:
		res["b/n"] = map[string]int{}
	case 2:
		res["b/n"] = map[string]int{tx: dMemV0}
	case 3:
		res["b/n"] = map[string]int{tx: dRefMissing}
	}
	return res
}

func (c treeCase) materialise(w *worker, base string) {
	must(os.RemoveAll(base))
	must(os.Mkdir(base, 0755))
	m := c.initial()
	var ds []string
	for d := range m.dirs {
		ds = append(ds, d)
	}
	sort.Strings(ds)
	for _, d := range ds {
		must(os.Mkdir(filepath.Join(base, d), 0755))
	}
	for p, e := range m.files {
		must(rawWrite(filepath.Join(base, p), e.Content, e.Perm))
	}
}

type treeObs struct {
	Err     string         `json:"err"`
	Changed []string       `json:"changed"`
	Removed []string       `json:"removed"`
	Files   map[string]ent `json:"files"`
	Dirs    []string       `json:"dirs"`
	Order   []string       `json:"order_observed"`
}

func snapshotTree(base string) (map[string]ent, []string) {
	files := map[string]ent{}
	var dirs []string
	err := filepath.Walk(base, func(p string, fi os.FileInfo, err error) error {
		if err != nil {
			return err
		}
		rel, _ := filepath.Rel(base, p)
		if rel == "." {
			return nil
		}
		switch {
		case fi.IsDir():
			dirs = append(dirs, rel)
		case fi.Mode().IsRegular():
			files[rel] = ent{Kind: "reg", Content: rawRead(p), Perm: uint32(fi.Mode().Perm())}
		case fi.Mode()&os.ModeSymlink != 0:
			t, _ := os.Readlink(p)
			files[rel] = ent{Kind: "sym", Target: t}
		default:
			files[rel] = ent{Kind: "other"}
		}
		return nil
	})
	if err != nil {
		harnessError("tree snapshot: %v", err)
	}
	sort.Strings(dirs)
	return files, dirs
}

func runTree(w *worker, c treeCase) treeObs {
	base := filepath.Join(w.root, "t")
	c.materialise(w, base)
	var log []string
	var mu sync.Mutex
	content := map[string]map[string]osutil.FileState{}
	for d, names := range c.desired() {
		content[d] = map[string]osutil.FileState{}
		for n, wv := range names {
			content[d][n] = &spy{inner: wantState(w, wv), name: filepath.Join(d, n), mu: &mu, log: &log}
		}
	}
	changed, removed, err := osutil.EnsureTreeState(base, treeGlobs, content)
	o := treeObs{Changed: changed, Removed: removed, Order: firstCalls(log)}
	o.Files, o.Dirs = snapshotTree(base)
	if err != nil {
		o.Err = err.Error()
		if o.Err == "" {
			o.Err = "(empty error text)"
		}
	}
	return o
}

type treeExpect struct {
	fault      bool
	files      map[string]ent // expected files for the applicable outcome
	changed    []string
	removed    []string        // exact (success) or lower bound (failure)
	removedMax map[string]bool // failure: upper bound
	mustDir    map[string]bool
	mustNotDir map[string]bool
	knownDirs  map[string]bool
	nontrivial bool
}

// expectTree is the reference model of EnsureTreeState (from its doc comment and the property statement).
func expectTree(w *worker, c treeCase) treeExpect {
	m := c.initial()
	des := c.desired()
	x := treeExpect{files: map[string]ent{}, removedMax: map[string]bool{}, mustDir: map[string]bool{}, mustNotDir: map[string]bool{}, knownDirs: map[string]bool{}}
	// faults
	for d, names := range des {
		for n, wv := range names {
			p := filepath.Join(d, n)
			if wv == dRefMissing || m.blockers[p] {
				x.fault = true
			}
		}
		if d == "a" && c.A == 9 {
			x.fault = true // a regular file where a content directory has to be created
		}
	}
	if len(m.blockers) > 0 {
		x.fault = true // either in the way of a desired file or a stale entry that cannot be removed
	}
	removalIn := map[string]bool{} // directory -> a stale file is certainly removed from it
	for p, e := range m.files {
		x.files[p] = e
	}
	if !x.fault {
		for p := range m.managed {
			d := filepath.Dir(p)
			if wv, ok := des[d][filepath.Base(p)]; ok && wv != dAbsent {
				continue
			}
			delete(x.files, p)
			x.removed = append(x.removed, p)
			removalIn[d] = true
		}
		for d, names := range des {
			for n, wv := range names {
				p := filepath.Join(d, n)
				we, _ := wantEnt(w, wv)
				if ie, ok := m.files[p]; !ok || !entEq(ie, we) {
					x.changed = append(x.changed, p)
				}
				x.files[p] = we
			}
		}
	} else {
		for p := range m.managed {
			delete(x.files, p)
			x.removed = append(x.removed, p)
			x.removedMax[p] = true
			removalIn[filepath.Dir(p)] = true
		}
		for d, names := range des {
			for n := range names {
				p := filepath.Join(d, n)
				if !m.blockers[p] {
					x.removedMax[p] = true
				}
			}
		}
	}
	sort.Strings(x.changed)
	sort.Strings(x.removed)
	// directories
	hasContent := func(d string) bool {
		for p := range x.files {
			if strings.HasPrefix(p, d+"/") {
				return true
			}
		}
		return false
	}
	inContentOrBelow := func(d string) bool {
		for k := range des {
			if k == d || strings.HasPrefix(k, d+"/") {
				return true
			}
		}
		return false
	}
	for _, d := range []string{"a", "b", "b/n", "a/" + tx} {
		x.knownDirs[d] = true
	}
	if m.dirs["a/"+tx] {
		x.mustDir["a/"+tx] = true
	} else {
		x.mustNotDir["a/"+tx] = true
	}
	for _, d := range []string{"a", "b/n", "b"} {
		switch {
		case hasContent(d):
			x.mustDir[d] = true
		case !m.dirs[d] && !inContentOrBelow(d):
			x.mustNotDir[d] = true
		case d == "a" && c.A == 9:
			x.mustNotDir[d] = true // it is a file
		case removalIn[d]:
			x.mustNotDir[d] = true // documented: directories that lost files and are now empty are removed
		case d == "b" && removalIn["b/n"] && !hasContent("b"):
			x.mustNotDir[d] = true // ... plus their empty parents
		}
	}
	x.nontrivial = x.fault || len(x.changed) > 0 || len(x.removed) > 0
	return x
}

func judgeTree(x treeExpect, o treeObs) string {
	var r []string
	if d := stateDiff(o.Files, x.files); d != "" {
		r = append(r, "files: "+d)
	}
	have := map[string]bool{}
	for _, d := range o.Dirs {
		have[d] = true
		if !x.knownDirs[d] {
			r = append(r, "unexpected directory "+d)
		}
		if x.mustNotDir[d] {
			r = append(r, "directory "+d+" must not exist")
		}
	}
	for d := range x.mustDir {
		if !have[d] {
			r = append(r, "directory "+d+" is gone")
		}
	}
	if !x.fault {
		if o.Err != "" {
			r = append(r, "error returned: "+o.Err)
		}
		if !sliceEq(o.Changed, x.changed) {
			r = append(r, fmt.Sprintf("changed=%v want %v", o.Changed, x.changed))
		}
		if !sliceEq(o.Removed, x.removed) {
			r = append(r, fmt.Sprintf("removed=%v want %v", o.Removed, x.removed))
		}
	} else {
		if o.Err == "" {
			r = append(r, "no error returned")
		}
		if len(o.Changed) != 0 {
			r = append(r, fmt.Sprintf("changed=%v want empty", o.Changed))
		}
		if !isSortedUnique(o.Removed) {
			r = append(r, fmt.Sprintf("removed=%v not sorted/unique", o.Removed))
		}
		got := map[string]bool{}
		for _, p := range o.Removed {
			got[p] = true
			if !x.removedMax[p] {
				r = append(r, "removed lists "+p+" which cannot have been removed")
			}
		}
		for _, p := range x.removed {
			if !got[p] {
				r = append(r, fmt.Sprintf("removed=%v lacks %s", o.Removed, p))
			}
		}
	}
	sort.Strings(r)
	return strings.Join(r, ", ")
}

// The order in which EnsureTreeState walks its sub-directory map cannot be driven from outside; every
// faulty case is therefore repeated (the runtime picks one of the rotations of the map's insertion order).
func treeFaultRepeats(r *eng.Run) int { return r.Pick(2, 12) }

func runTreePart(r *eng.Run, rp *reporter, base string) stats {
	var cases []treeCase
	for dot := 0; dot < nDot; dot++ {
		for a := 0; a < nA; a++ {
			for b := 0; b < nB; b++ {
				for wd := 0; wd < nWDot; wd++ {
					for wa := 0; wa < nWA; wa++ {
						for wb := 0; wb < nWB; wb++ {
							cases = append(cases, treeCase{dot, a, b, wd, wa, wb})
						}
					}
				}
			}
		}
	}
	var tot stats
	var mu sync.Mutex
	var wmu sync.Mutex
	var free []*worker
	next := 1000
	orders := map[string]bool{}
	chunk := 200
	nchunks := (len(cases) + chunk - 1) / chunk
	eng.ParallelFor(nchunks, func(ci int) {
		if r.TimeUp() {
			r.Cap("time", "tree part stopped early")
			return
		}
		if rp.full() {
			return
		}
		wmu.Lock()
		var w *worker
		if len(free) > 0 {
			w = free[len(free)-1]
			free = free[:len(free)-1]
		} else {
			next++
			w = newWorker(base, next)
		}
		wmu.Unlock()
		var st stats
		localOrders := map[string]bool{}
		lo, hi := ci*chunk, (ci+1)*chunk
		if hi > len(cases) {
			hi = len(cases)
		}
		for _, c := range cases[lo:hi] {
			x := expectTree(w, c)
			st.cases++
			if x.nontrivial {
				st.nontrivial++
			}
			reps := 1
			if x.fault {
				reps = treeFaultRepeats(r)
				st.faultCases++
			}
			for k := 0; k < reps; k++ {
				o := runTree(w, c)
				st.runs++
				why := judgeTree(x, o)
				if why == "" {
					why = w.outIntact()
				}
				if x.fault {
					localOrders[c.key()+strings.Join(o.Order, ",")] = true
				}
				if why != "" {
					// confirm
					again := false
					for t := 0; t < 1000 && !again; t++ {
						if judgeTree(x, runTree(w, c)) != "" {
							again = true
						}
					}
					if !again {
						harnessError("tree case %s failed once (%s) and then passed 1000 times", c.key(), why)
					}
					ob, _ := json.Marshal(o)
					cc := c
					rp.violation(c.key(), fmt.Sprintf("%s :: observed %s", why, ob), dirCase{Part: "tree", Tree: &cc})
					break
				}
				if o.Err == "" {
					st.outA++
				} else {
					st.outB++
				}
			}
		}
		wmu.Lock()
		free = append(free, w)
		wmu.Unlock()
		mu.Lock()
		tot.runs += st.runs
		tot.cases += st.cases
		tot.nontrivial += st.nontrivial
		tot.faultCases += st.faultCases
		tot.outA += st.outA
		tot.outB += st.outB
		for k := range localOrders {
			orders[k] = true
		}
		mu.Unlock()
	})
	r.Add("tree_cases", tot.cases)
	r.Add("tree_runs", tot.runs)
	r.Add("tree_fault_cases", tot.faultCases)
	r.Add("tree_outcome_success", tot.outA)
	r.Add("tree_outcome_failure_erased", tot.outB)
	r.Add("tree_fault_case_distinct_observed_orders", int64(len(orders)))
	if tot.outA > 0 {
		r.Distinct("outcome", "tree-success")
	}
	if tot.outB > 0 {
		r.Distinct("outcome", "tree-failure-erased")
	}
	if len(cases) > 0 {
		r.Sample(map[string]interface{}{"tree_case": cases[len(cases)/2+11], "desired": cases[len(cases)/2+11].desired()})
	}
	return tot
}

func replayTree(w *worker, r *eng.Run, c dirCase) {
	if c.Tree == nil {
		harnessError("tree replay without tree case")
	}
	x := expectTree(w, *c.Tree)
	for k := 0; k < 50; k++ {
		o := runTree(w, *c.Tree)
		why := judgeTree(x, o)
		if why != "" {
			ob, _ := json.Marshal(o)
			fmt.Printf("replay %s (repetition %d)\n  observed %s\n  VIOLATES: %s\n", c.Tree.key(), k+1, ob, why)
			r.Violation(c.Tree.key(), why, c)
			return
		}
	}
	fmt.Printf("replay %s: allowed outcome on 50 repetitions\n", c.Tree.key())
}
