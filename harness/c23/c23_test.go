// C23 — profile directories are synchronized exactly and fail closed.
//
// Part "dir": osutil.EnsureDirStateGlobs on a real temp directory. Every assignment of initial entry
// kinds to the managed names (+ one name of a second glob + one unrelated name that almost matches)
// x every desired-state option per managed name (absent, in-memory, file reference, file reference +
// mode, symlink, reference to a missing source). Faults are placed without hooks: missing reference
// source, directory in the way, non-removable (non-empty directory) stale entry. For cases with a
// write fault every processing order of the desired map is driven (the order the implementation's map
// loop takes is observed through a FileState spy and the run is repeated until the wanted order shows up).
//
// Part "tree": osutil.EnsureTreeState over ".", "a", "b/n".
//
// Oracle: a reference model computed from the case description (not from the implementation) gives the
// set of allowed outcomes: success (exact state + exact sorted changed/removed lists), write failure
// (error, nothing managed remains except entries whose removal cannot succeed, changed empty, removed
// sandwiched), removal-failure-only (error, everything else exact). The observed outcome must match one.
package c23_test

import (
	"encoding/json"
	"fmt"
	"io"
	"os"
	"path/filepath"
	"sort"
	"strings"
	"sync"
	"sync/atomic"
	"syscall"
	"testing"
	"time"

	"github.com/snapcore/snapd/osutil"
	eng "github.com/snapcore/snapd/verifengine"
)

const (
	c0 = "AAAA\n"
	c1 = "BBBB\n" // same length as c0: forces the content comparison, not the size shortcut
)

// initial entry kinds
const (
	kAbsent      = iota
	kRegV0       // regular c0 0644 (== desired v0)
	kRegOther    // regular c1 0644 (content differs from v0, mode differs from v1)
	kRegMode     // regular c0 0600 (wrong mode for v0, wrong content for v1)
	kEmptyDir    // directory in the way (removable)
	kNonEmptyDir // directory in the way (not removable with os.Remove)
	kSymlink     // symlink -> T0 (an existing outside file with content c1 0644)
	nKinds
)

// desired options
const (
	dAbsent     = iota
	dMemV0      // MemoryFileState c0 0644
	dMemV1      // MemoryFileState c1 0600
	dRefV0      // FileReference -> out/src0 (c0 0644)
	dRefModeV1  // FileReferencePlusMode -> out/src1 (c1 0644) with mode 0600
	dSymT0      // SymlinkFileState T0
	dSymT1      // SymlinkFileState T1
	dRefMissing // FileReference -> missing file (write fault)
	nWants
)

var kindNames = []string{"absent", "reg-v0", "reg-other", "reg-wrongmode", "emptydir", "nonemptydir", "symlink"}
var wantNames = []string{"absent", "mem-v0", "mem-v1", "ref-v0", "refmode-v1", "sym-t0", "sym-t1", "ref-missing"}

var globs = []string{"snap.foo.*", "foo_*.conf"}

const unrelatedName = "snap.foobar.a" // almost matches the first glob
const glob2Name = "foo_x.conf"

var managedAll = []string{"snap.foo.a", "snap.foo.b", "snap.foo.c"}

type dirCase struct {
	Part  string    `json:"part"`
	NMan  int       `json:"n_managed"`
	Init  []int     `json:"init"`  // kinds: managed names..., glob2 name, unrelated name
	Want  []int     `json:"want"`  // desired option: managed names..., glob2 name
	Order []int     `json:"order"` // insertion order into the content map (indices into names with a desired entry)
	Tree  *treeCase `json:"tree,omitempty"`
}

func (c dirCase) names() []string {
	return append(append([]string{}, managedAll[:c.NMan]...), glob2Name)
}

func (c dirCase) key() string {
	return fmt.Sprintf("dir:init=%v:want=%v", c.Init, c.Want)
}

func (c dirCase) describe() string {
	var sb strings.Builder
	ns := c.names()
	for i, n := range ns {
		fmt.Fprintf(&sb, "%s[%s->%s] ", n, kindNames[c.Init[i]], wantNames[c.Want[i]])
	}
	fmt.Fprintf(&sb, "%s[%s] order=%v", unrelatedName, kindNames[c.Init[len(ns)]], c.Order)
	return sb.String()
}

type worker struct {
	root, out string
	t0, t1    string
}

func newWorker(base string, i int) *worker {
	w := &worker{root: filepath.Join(base, fmt.Sprintf("w%d", i))}
	w.out = filepath.Join(w.root, "out")
	must(os.MkdirAll(w.out, 0755))
	must(os.WriteFile(filepath.Join(w.out, "src0"), []byte(c0), 0644))
	must(os.WriteFile(filepath.Join(w.out, "src1"), []byte(c1), 0644))
	must(os.WriteFile(filepath.Join(w.out, "t0"), []byte(c1), 0644))
	must(os.Chmod(filepath.Join(w.out, "src0"), 0644))
	must(os.Chmod(filepath.Join(w.out, "src1"), 0644))
	must(os.Chmod(filepath.Join(w.out, "t0"), 0644))
	w.t0 = filepath.Join(w.out, "t0")
	w.t1 = "../elsewhere/t1"
	return w
}

var scratchBase string

func harnessError(format string, a ...interface{}) {
	if scratchBase != "" {
		os.RemoveAll(scratchBase)
	}
	eng.HarnessError(format, a...)
}

// rawWrite / rawRead: plain system calls (os.OpenFile adds fcntl + epoll_ctl round trips per file,
// which dominate the cost of a case).
func rawWrite(path string, content string, perm uint32) error {
	fd, err := syscall.Open(path, syscall.O_WRONLY|syscall.O_CREAT|syscall.O_TRUNC|syscall.O_CLOEXEC, perm)
	if err != nil {
		return &os.PathError{Op: "open", Path: path, Err: err}
	}
	defer syscall.Close(fd)
	if len(content) > 0 {
		if _, err := syscall.Write(fd, []byte(content)); err != nil {
			return &os.PathError{Op: "write", Path: path, Err: err}
		}
	}
	return nil
}

func rawRead(path string) string {
	fd, err := syscall.Open(path, syscall.O_RDONLY|syscall.O_CLOEXEC, 0)
	if err != nil {
		return "<unreadable: " + err.Error() + ">"
	}
	defer syscall.Close(fd)
	var buf [256]byte
	var out []byte
	for {
		n, err := syscall.Read(fd, buf[:])
		if n > 0 {
			out = append(out, buf[:n]...)
		}
		if n <= 0 || err != nil {
			break
		}
		if n < len(buf) {
			break
		}
	}
	return string(out)
}

func must(err error) {
	if err != nil {
		harnessError("fixture: %v", err)
	}
}

func (w *worker) outIntact() string {
	for _, f := range []struct{ n, c string }{{"src0", c0}, {"src1", c1}, {"t0", c1}} {
		p := filepath.Join(w.out, f.n)
		fi, err := os.Lstat(p)
		if err != nil || !fi.Mode().IsRegular() || fi.Mode().Perm() != 0644 {
			return fmt.Sprintf("outside file %s changed: %v %v", f.n, fi, err)
		}
		if b := rawRead(p); b != f.c {
			return fmt.Sprintf("outside file %s content changed to %q", f.n, b)
		}
	}
	es, _ := os.ReadDir(w.out)
	if len(es) != 3 {
		return fmt.Sprintf("outside dir has %d entries", len(es))
	}
	return ""
}

type ent struct {
	Kind     string   `json:"kind"` // reg, dir, sym
	Content  string   `json:"content,omitempty"`
	Perm     uint32   `json:"perm,omitempty"`
	Target   string   `json:"target,omitempty"`
	Children []string `json:"children,omitempty"`
}

func (e ent) String() string {
	switch e.Kind {
	case "reg":
		return fmt.Sprintf("reg(%q,%o)", e.Content, e.Perm)
	case "sym":
		return fmt.Sprintf("sym(%s)", e.Target)
	}
	return fmt.Sprintf("dir%v", e.Children)
}

func entEq(a, b ent) bool {
	return a.Kind == b.Kind && a.Content == b.Content && a.Perm == b.Perm && a.Target == b.Target && strings.Join(a.Children, "/") == strings.Join(b.Children, "/")
}

func place(w *worker, path string, kind int) {
	switch kind {
	case kAbsent:
	case kRegV0:
		must(rawWrite(path, c0, 0644))
	case kRegOther:
		must(rawWrite(path, c1, 0644))
	case kRegMode:
		must(rawWrite(path, c0, 0600))
	case kEmptyDir:
		must(os.Mkdir(path, 0755))
	case kNonEmptyDir:
		must(os.Mkdir(path, 0755))
		must(rawWrite(filepath.Join(path, "keep"), "k", 0644))
	case kSymlink:
		must(os.Symlink(w.t0, path))
	}
}

func initEnt(w *worker, kind int) (ent, bool) {
	switch kind {
	case kRegV0:
		return ent{Kind: "reg", Content: c0, Perm: 0644}, true
	case kRegOther:
		return ent{Kind: "reg", Content: c1, Perm: 0644}, true
	case kRegMode:
		return ent{Kind: "reg", Content: c0, Perm: 0600}, true
	case kEmptyDir:
		return ent{Kind: "dir"}, true
	case kNonEmptyDir:
		return ent{Kind: "dir", Children: []string{"keep"}}, true
	case kSymlink:
		return ent{Kind: "sym", Target: w.t0}, true
	}
	return ent{}, false
}

func wantEnt(w *worker, want int) (ent, bool) {
	switch want {
	case dMemV0, dRefV0:
		return ent{Kind: "reg", Content: c0, Perm: 0644}, true
	case dMemV1, dRefModeV1:
		return ent{Kind: "reg", Content: c1, Perm: 0600}, true
	case dSymT0:
		return ent{Kind: "sym", Target: w.t0}, true
	case dSymT1:
		return ent{Kind: "sym", Target: w.t1}, true
	}
	return ent{}, false
}

func wantState(w *worker, want int) osutil.FileState {
	switch want {
	case dMemV0:
		return &osutil.MemoryFileState{Content: []byte(c0), Mode: 0644}
	case dMemV1:
		return &osutil.MemoryFileState{Content: []byte(c1), Mode: 0600}
	case dRefV0:
		return osutil.FileReference{Path: filepath.Join(w.out, "src0")}
	case dRefModeV1:
		return osutil.FileReferencePlusMode{FileReference: osutil.FileReference{Path: filepath.Join(w.out, "src1")}, Mode: 0600}
	case dSymT0:
		return osutil.SymlinkFileState{Target: w.t0}
	case dSymT1:
		return osutil.SymlinkFileState{Target: w.t1}
	case dRefMissing:
		return osutil.FileReference{Path: filepath.Join(w.out, "missing")}
	}
	return nil
}

// spy records the order in which the implementation asks the desired entries for their state.
type spy struct {
	inner osutil.FileState
	name  string
	mu    *sync.Mutex
	log   *[]string
}

func (s *spy) State() (io.ReadCloser, int64, os.FileMode, error) {
	s.mu.Lock()
	*s.log = append(*s.log, s.name)
	s.mu.Unlock()
	return s.inner.State()
}

func firstCalls(log []string) []string {
	var res []string
	seen := map[string]bool{}
	for _, n := range log {
		if !seen[n] {
			seen[n] = true
			res = append(res, n)
		}
	}
	return res
}

func snapshot(dir string) map[string]ent {
	res := map[string]ent{}
	es, err := os.ReadDir(dir)
	if err != nil {
		harnessError("snapshot: %v", err)
	}
	for _, e := range es {
		p := filepath.Join(dir, e.Name())
		fi, err := os.Lstat(p)
		if err != nil {
			harnessError("snapshot: %v", err)
		}
		switch {
		case fi.Mode().IsRegular():
			res[e.Name()] = ent{Kind: "reg", Content: rawRead(p), Perm: uint32(fi.Mode().Perm())}
		case fi.Mode()&os.ModeSymlink != 0:
			t, _ := os.Readlink(p)
			res[e.Name()] = ent{Kind: "sym", Target: t}
		case fi.IsDir():
			var ch []string
			sub, _ := os.ReadDir(p)
			for _, s := range sub {
				ch = append(ch, s.Name())
			}
			res[e.Name()] = ent{Kind: "dir", Children: ch}
		default:
			res[e.Name()] = ent{Kind: "other"}
		}
	}
	return res
}

type observation struct {
	Err     string         `json:"err"`
	Changed []string       `json:"changed"`
	Removed []string       `json:"removed"`
	State   map[string]ent `json:"state"`
	Order   []string       `json:"order_observed"`
}

type expectation struct {
	writeMust, writeMay, removalFault bool
	// outcome A/C
	exact        map[string]ent
	changed      []string
	removedExact []string // A: stale present; C: stale present and removable
	// outcome B
	erased          map[string]ent
	removedLower    []string
	removedUpperSet map[string]bool
	nontrivial      bool
}

func sortedCopy(s []string) []string {
	r := append([]string{}, s...)
	sort.Strings(r)
	return r
}

func sliceEq(a, b []string) bool {
	if len(a) != len(b) {
		return false
	}
	for i := range a {
		if a[i] != b[i] {
			return false
		}
	}
	return true
}

// reference model for EnsureDirStateGlobs, written from the property statement.
func expectDir(w *worker, c dirCase) expectation {
	var x expectation
	ns := c.names()
	x.exact = map[string]ent{}
	x.erased = map[string]ent{}
	x.removedUpperSet = map[string]bool{}
	if ue, ok := initEnt(w, c.Init[len(ns)]); ok {
		x.exact[unrelatedName] = ue
		x.erased[unrelatedName] = ue
	}
	for i, n := range ns {
		ie, present := initEnt(w, c.Init[i])
		we, wanted := wantEnt(w, c.Want[i])
		k := c.Init[i]
		switch {
		case c.Want[i] == dRefMissing:
			x.writeMust = true
		case c.Want[i] != dAbsent && k == kNonEmptyDir:
			x.writeMust = true
		case c.Want[i] != dAbsent && k == kEmptyDir:
			x.writeMay = true
		case c.Want[i] == dAbsent && k == kNonEmptyDir:
			x.removalFault = true
		}
		if wanted {
			x.exact[n] = we
			if !(present && entEq(ie, we)) {
				x.changed = append(x.changed, n)
			}
		} else if c.Want[i] == dAbsent {
			if k == kNonEmptyDir {
				x.exact[n] = ie // cannot be removed
			} else if present {
				x.removedExact = append(x.removedExact, n)
			}
		}
		// erase outcome: everything managed is gone except what os.Remove cannot remove
		if k == kNonEmptyDir {
			x.erased[n] = ie
		} else {
			if present {
				x.removedLower = append(x.removedLower, n)
				x.removedUpperSet[n] = true
			}
			if c.Want[i] != dAbsent {
				x.removedUpperSet[n] = true
			}
		}
	}
	sort.Strings(x.changed)
	sort.Strings(x.removedExact)
	sort.Strings(x.removedLower)
	x.nontrivial = len(x.changed) > 0 || len(x.removedExact) > 0 || x.writeMust || x.writeMay || x.removalFault
	return x
}

func stateDiff(got, want map[string]ent) string {
	var d []string
	for n, we := range want {
		ge, ok := got[n]
		if !ok {
			d = append(d, fmt.Sprintf("%s: missing, want %v", n, we))
		} else if !entEq(ge, we) {
			d = append(d, fmt.Sprintf("%s: is %v, want %v", n, ge, we))
		}
	}
	for n, ge := range got {
		if _, ok := want[n]; !ok {
			d = append(d, fmt.Sprintf("%s: unexpected entry %v", n, ge))
		}
	}
	sort.Strings(d)
	return strings.Join(d, "; ")
}

func isSortedUnique(s []string) bool {
	for i := 1; i < len(s); i++ {
		if s[i-1] >= s[i] {
			return false
		}
	}
	return true
}

// judge returns "" if the observation matches one of the outcomes the reference allows.
func judge(x expectation, o observation) (outcome string, why string) {
	var reasons []string
	// A: success
	if !x.writeMust && !x.removalFault {
		var r []string
		if o.Err != "" {
			r = append(r, "error returned: "+o.Err)
		}
		if d := stateDiff(o.State, x.exact); d != "" {
			r = append(r, "state: "+d)
		}
		if !sliceEq(o.Changed, x.changed) {
			r = append(r, fmt.Sprintf("changed=%v want %v", o.Changed, x.changed))
		}
		if !sliceEq(o.Removed, x.removedExact) {
			r = append(r, fmt.Sprintf("removed=%v want %v", o.Removed, x.removedExact))
		}
		if len(r) == 0 {
			return "success", ""
		}
		reasons = append(reasons, "not a valid success ("+strings.Join(r, ", ")+")")
	}
	// B: write failure => erase
	if x.writeMust || x.writeMay {
		var r []string
		if o.Err == "" {
			r = append(r, "no error returned")
		}
		if d := stateDiff(o.State, x.erased); d != "" {
			r = append(r, "state: "+d)
		}
		if len(o.Changed) != 0 {
			r = append(r, fmt.Sprintf("changed=%v want empty", o.Changed))
		}
		if !isSortedUnique(o.Removed) {
			r = append(r, fmt.Sprintf("removed=%v not sorted/unique", o.Removed))
		}
		have := map[string]bool{}
		for _, n := range o.Removed {
			have[n] = true
			if !x.removedUpperSet[n] {
				r = append(r, fmt.Sprintf("removed lists %s which cannot have been removed", n))
			}
		}
		for _, n := range x.removedLower {
			if !have[n] {
				r = append(r, fmt.Sprintf("removed=%v lacks %s", o.Removed, n))
			}
		}
		if len(r) == 0 {
			return "write-failure-erased", ""
		}
		reasons = append(reasons, "not a valid fail-closed result ("+strings.Join(r, ", ")+")")
	}
	// C: only a removal failed
	if !x.writeMust && x.removalFault {
		var r []string
		if o.Err == "" {
			r = append(r, "no error returned although a stale entry cannot be removed")
		}
		if d := stateDiff(o.State, x.exact); d != "" {
			r = append(r, "state: "+d)
		}
		if !sliceEq(o.Changed, x.changed) {
			r = append(r, fmt.Sprintf("changed=%v want %v", o.Changed, x.changed))
		}
		if !sliceEq(o.Removed, x.removedExact) {
			r = append(r, fmt.Sprintf("removed=%v want %v", o.Removed, x.removedExact))
		}
		if len(r) == 0 {
			return "removal-failure", ""
		}
		reasons = append(reasons, "not a valid removal-failure result ("+strings.Join(r, ", ")+")")
	}
	return "", strings.Join(reasons, " AND ")
}

// runDir materialises the case, calls the implementation once and returns the observation.
func runDir(w *worker, c dirCase) observation {
	d := filepath.Join(w.root, "d")
	must(os.RemoveAll(d))
	must(os.Mkdir(d, 0755))
	ns := c.names()
	for i, n := range ns {
		place(w, filepath.Join(d, n), c.Init[i])
	}
	place(w, filepath.Join(d, unrelatedName), c.Init[len(ns)])
	var log []string
	var mu sync.Mutex
	content := map[string]osutil.FileState{}
	var desired []int
	for i := range ns {
		if c.Want[i] != dAbsent {
			desired = append(desired, i)
		}
	}
	order := c.Order
	if len(order) != len(desired) {
		order = nil
		for k := range desired {
			order = append(order, k)
		}
	}
	for _, k := range order {
		i := desired[k]
		content[ns[i]] = &spy{inner: wantState(w, c.Want[i]), name: ns[i], mu: &mu, log: &log}
	}
	changed, removed, err := osutil.EnsureDirStateGlobs(d, globs, content)
	o := observation{Changed: changed, Removed: removed, State: snapshot(d), Order: firstCalls(log)}
	if err != nil {
		o.Err = err.Error()
		if o.Err == "" {
			o.Err = "(empty error text)"
		}
	}
	return o
}

func wantedOrder(c dirCase) []string {
	ns := c.names()
	var desired []string
	for i := range ns {
		if c.Want[i] != dAbsent {
			desired = append(desired, ns[i])
		}
	}
	if len(c.Order) != len(desired) {
		return desired
	}
	var res []string
	for _, k := range c.Order {
		res = append(res, desired[k])
	}
	return res
}

func isPrefix(p, full []string) bool {
	if len(p) > len(full) {
		return false
	}
	for i := range p {
		if p[i] != full[i] {
			return false
		}
	}
	return true
}

func permutations(n int) [][]int {
	if n == 0 {
		return [][]int{{}}
	}
	var res [][]int
	var rec func(cur []int, used int)
	rec = func(cur []int, used int) {
		if len(cur) == n {
			res = append(res, append([]int{}, cur...))
			return
		}
		for i := 0; i < n; i++ {
			if used&(1<<i) == 0 {
				rec(append(cur, i), used|1<<i)
			}
		}
	}
	rec(nil, 0)
	return res
}

const maxOrderTries = 200

type stats struct {
	runs, cases, nontrivial, faultCases, orderTargets, orderReached, outA, outB, outC int64
}

type reporter struct {
	r          *eng.Run
	suppressed int64
}

// full: enough violations were recorded; the enumeration stops (the run is a failure anyway).
func (rp *reporter) full() bool {
	if rp.r.NumViolations() >= 60 {
		rp.r.Cap("violations", "enumeration stopped after 60 recorded violations")
		return true
	}
	return false
}

func (rp *reporter) violation(key, msg string, c interface{}) {
	if rp.r.NumViolations() >= 60 {
		atomic.AddInt64(&rp.suppressed, 1)
		return
	}
	rp.r.Violation(key, msg, c)
}

// checkDirCase runs one (init,want) case in every processing order that matters.
func checkDirCase(w *worker, rp *reporter, c dirCase, st *stats) {
	x := expectDir(w, c)
	st.cases++
	if x.nontrivial {
		st.nontrivial++
	}
	nd := 0
	for _, wv := range c.Want {
		if wv != dAbsent {
			nd++
		}
	}
	orders := [][]int{nil}
	enumerateOrders := (x.writeMust || x.writeMay) && nd >= 2
	if enumerateOrders {
		orders = permutations(nd)
		st.faultCases++
	} else if x.writeMust || x.writeMay || x.removalFault {
		st.faultCases++
	}
	for _, ord := range orders {
		cc := c
		cc.Order = ord
		want := wantedOrder(cc)
		if enumerateOrders {
			st.orderTargets++
		}
		for try := 0; try < maxOrderTries; try++ {
			o := runDir(w, cc)
			st.runs++
			out, why := judge(x, o)
			if why != "" {
				confirmAndReport(w, rp, cc, x, o, why)
			}
			switch out {
			case "success":
				st.outA++
			case "write-failure-erased":
				st.outB++
			case "removal-failure":
				st.outC++
			}
			if !enumerateOrders {
				break
			}
			if isPrefix(o.Order, want) {
				st.orderReached++
				break
			}
		}
	}
	if s := w.outIntact(); s != "" {
		rp.violation("outside:"+c.key(), c.describe()+" :: files outside the synchronised directory were modified: "+s, c)
		os.RemoveAll(w.out)
		*w = *newWorker(filepath.Dir(w.root), int(atomic.AddInt64(&workerSeq, 1)))
	}
}

var workerSeq int64 = 5000

// confirmAndReport re-runs a failing case (until the same processing order prefix is observed again) before reporting it.
func confirmAndReport(w *worker, rp *reporter, c dirCase, x expectation, first observation, why string) {
	reproduced := false
	for try := 0; try < maxOrderTries && !reproduced; try++ {
		o := runDir(w, c)
		if _, why2 := judge(x, o); why2 != "" {
			reproduced = true
		}
	}
	if !reproduced {
		harnessError("case %s failed once (%s) and then passed %d times: non-deterministic harness", c.key(), why, maxOrderTries)
	}
	ob, _ := json.Marshal(first)
	rp.violation(c.key(), fmt.Sprintf("%s :: %s :: observed %s", c.describe(), why, ob), c)
}

type dirSpace struct {
	name                                                   string
	nMan                                                   int
	manKinds, manWants, glob2Kinds, glob2Wants, unrelKinds []int
}

func (sp dirSpace) enumerate(f func(c dirCase)) {
	var rec func(c dirCase)
	rec = func(c dirCase) {
		switch {
		case len(c.Init) < sp.nMan:
			for _, k := range sp.manKinds {
				c2 := c
				c2.Init = append(append([]int{}, c.Init...), k)
				rec(c2)
			}
		case len(c.Init) == sp.nMan:
			for _, k := range sp.glob2Kinds {
				for _, u := range sp.unrelKinds {
					c2 := c
					c2.Init = append(append([]int{}, c.Init...), k, u)
					rec(c2)
				}
			}
		case len(c.Want) < sp.nMan:
			for _, k := range sp.manWants {
				c2 := c
				c2.Want = append(append([]int{}, c.Want...), k)
				rec(c2)
			}
		default:
			for _, k := range sp.glob2Wants {
				c2 := c
				c2.Want = append(append([]int{}, c.Want...), k)
				f(c2)
			}
		}
	}
	rec(dirCase{Part: "dir", NMan: sp.nMan})
}

func seq(n int) []int {
	var r []int
	for i := 0; i < n; i++ {
		r = append(r, i)
	}
	return r
}

// scratchDir prefers a tmpfs (the check does millions of tiny metadata operations; on a journalled
// disk file system they serialise in the kernel); it is removed before Finish.
func scratchDir(t *testing.T) string {
	for _, parent := range []string{"/dev/shm", eng.WorkDir()} {
		if fi, err := os.Stat(parent); err == nil && fi.IsDir() {
			// leftovers of killed runs (older than an hour)
			if old, _ := filepath.Glob(filepath.Join(parent, "verif-c23-*")); len(old) > 0 {
				for _, o := range old {
					if fi, err := os.Stat(o); err == nil && time.Since(fi.ModTime()) > time.Hour {
						os.RemoveAll(o)
					}
				}
			}
			if d, err := os.MkdirTemp(parent, "verif-c23-"); err == nil {
				scratchBase = d
				return d
			}
		}
	}
	scratchBase = t.TempDir()
	return scratchBase
}

func TestC23(t *testing.T) {
	r := eng.Start("C23", "fault_enumeration", 100*time.Second, 14*time.Minute)
	r.Assume("faults are placed through the file system only (reference to a missing source file, directory in the way, non-empty directory as non-removable stale entry); I/O errors of a healthy file system (ENOSPC, EIO) are not injected",
		"the reference model (expected state, lists, allowed outcomes) is written from the property statement and the function's doc comment",
		"an initial symlink whose target already has exactly the desired content and mode is not generated (the implementation compares through the link and keeps it; see design_deviations)",
		"snapd's test-binary mode skips fsync (SNAPD_UNSAFE_IO); durability is C06's subject",
		"the processing order of the desired map is observed through a FileState spy and driven by repetition; the order of the removal loop and of EnsureTreeState's sub-directory loop is the runtime's")
	os.Unsetenv("SNAPD_DEBUG")
	syscall.Umask(022) // the modes used (0644, 0600, 0755) pass through it unchanged
	base := scratchDir(t)
	rp := &reporter{r: r}

	if rc := r.ReplayCase(); rc != nil {
		var c dirCase
		if err := json.Unmarshal(rc, &c); err != nil {
			harnessError("replay case: %v", err)
		}
		w := newWorker(base, 0)
		if c.Part == "tree" {
			replayTree(w, r, c)
		} else {
			x := expectDir(w, c)
			want := wantedOrder(c)
			bad := false
			for try := 0; try < maxOrderTries; try++ {
				o := runDir(w, c)
				out, why := judge(x, o)
				ob, _ := json.Marshal(o)
				if why != "" {
					fmt.Printf("replay %s\n  observed %s\n  outcome: VIOLATES: %s\n", c.describe(), ob, why)
					r.Violation(c.key(), why, c)
					bad = true
					break
				}
				if isPrefix(o.Order, want) {
					fmt.Printf("replay %s\n  observed %s\n  outcome: %s (allowed)\n", c.describe(), ob, out)
					break
				}
			}
			_ = bad
		}
		os.RemoveAll(base)
		r.Finish("replay")
	}

	// ---------------- part 1: EnsureDirStateGlobs ----------------
	var spaces []dirSpace
	if r.Quick() {
		spaces = []dirSpace{{name: "2 managed names, full alphabets", nMan: 2, manKinds: seq(nKinds), manWants: seq(nWants),
			glob2Kinds: []int{kAbsent, kRegOther, kNonEmptyDir}, glob2Wants: []int{dAbsent, dMemV0},
			unrelKinds: []int{kNonEmptyDir, kSymlink}}}
	} else {
		spaces = []dirSpace{
			{name: "2 managed names, full alphabets, full second-glob alphabets", nMan: 2, manKinds: seq(nKinds), manWants: seq(nWants),
				glob2Kinds: seq(nKinds), glob2Wants: []int{dAbsent, dMemV0, dRefMissing},
				unrelKinds: []int{kRegMode, kNonEmptyDir, kSymlink}},
			{name: "3 managed names, reduced alphabets", nMan: 3,
				manKinds: []int{kAbsent, kRegV0, kRegMode, kEmptyDir, kNonEmptyDir}, manWants: []int{dAbsent, dMemV0, dRefModeV1, dSymT0, dRefMissing},
				glob2Kinds: []int{kAbsent, kRegOther, kNonEmptyDir}, glob2Wants: []int{dAbsent, dMemV0},
				unrelKinds: []int{kRegMode}}}
	}
	var cases []dirCase // all dir cases (for samples)
	var spaceCases [][]dirCase
	var spaceInfo []map[string]interface{}
	for _, sp := range spaces {
		var cs []dirCase
		sp.enumerate(func(c dirCase) { cs = append(cs, c) })
		spaceCases = append(spaceCases, cs)
		cases = append(cases, cs...)
		spaceInfo = append(spaceInfo, map[string]interface{}{"space": sp.name, "cases": len(cs), "managed_kinds": len(sp.manKinds), "managed_wants": len(sp.manWants),
			"glob2_kinds": len(sp.glob2Kinds), "glob2_wants": len(sp.glob2Wants), "unrelated_kinds": len(sp.unrelKinds)})
	}

	var wmu sync.Mutex
	free := []*worker{}
	nextW := 0
	getW := func() *worker {
		wmu.Lock()
		defer wmu.Unlock()
		if len(free) > 0 {
			w := free[len(free)-1]
			free = free[:len(free)-1]
			return w
		}
		nextW++
		return newWorker(base, nextW)
	}
	putW := func(w *worker) { wmu.Lock(); free = append(free, w); wmu.Unlock() }
	var done int64
	var tot stats
	var totMu sync.Mutex
	var treeStats stats
	// order of work: first dir space, tree part, remaining dir spaces (a time cap then cuts the largest space last)
	for si, cases := range spaceCases {
		spaceName := spaces[si].name
		nw := 16
		chunk := (len(cases) + nw*8 - 1) / (nw * 8)
		nchunks := (len(cases) + chunk - 1) / chunk
		eng.ParallelFor(nchunks, func(ci int) {
			if r.TimeUp() {
				r.Cap("time", "dir part stopped early in space: "+spaceName)
				return
			}
			if rp.full() {
				return
			}
			w := getW()
			defer putW(w)
			var st stats
			lo, hi := ci*chunk, (ci+1)*chunk
			if hi > len(cases) {
				hi = len(cases)
			}
			for _, c := range cases[lo:hi] {
				checkDirCase(w, rp, c, &st)
			}
			atomic.AddInt64(&done, int64(hi-lo))
			totMu.Lock()
			tot.runs += st.runs
			tot.cases += st.cases
			tot.nontrivial += st.nontrivial
			tot.faultCases += st.faultCases
			tot.orderTargets += st.orderTargets
			tot.orderReached += st.orderReached
			tot.outA += st.outA
			tot.outB += st.outB
			tot.outC += st.outC
			totMu.Unlock()
		})
		if si == 0 {
			// ---------------- part 2: EnsureTreeState ----------------
			treeStats = runTreePart(r, rp, base)
		}
	}
	r.Add("dir_cases", tot.cases)
	r.Add("dir_runs", tot.runs)
	r.Add("dir_fault_cases", tot.faultCases)
	r.Add("dir_order_targets", tot.orderTargets)
	r.Add("dir_order_targets_reached", tot.orderReached)
	r.Add("dir_outcome_success", tot.outA)
	r.Add("dir_outcome_write_failure_erased", tot.outB)
	r.Add("dir_outcome_removal_failure", tot.outC)
	if tot.orderReached != tot.orderTargets {
		r.Cap("orders", fmt.Sprintf("%d of %d processing orders were not observed within %d repetitions", tot.orderTargets-tot.orderReached, tot.orderTargets, maxOrderTries))
	}
	if tot.outA > 0 {
		r.Distinct("outcome", "success")
	}
	if tot.outB > 0 {
		r.Distinct("outcome", "write-failure-erased")
	}
	if tot.outC > 0 {
		r.Distinct("outcome", "removal-failure")
	}
	if len(cases) > 0 {
		r.Sample(map[string]interface{}{"case": cases[len(cases)/3], "text": cases[len(cases)/3].describe()})
		r.Sample(map[string]interface{}{"case": cases[len(cases)*2/3+7], "text": cases[len(cases)*2/3+7].describe()})
	}

	r.Add("evaluations", tot.runs+treeStats.runs)
	r.Add("distinct_nontrivial", tot.nontrivial+treeStats.nontrivial)
	if rp.suppressed > 0 {
		r.Add("violations_suppressed_after_60", rp.suppressed)
	}
	r.Info("bounds", map[string]interface{}{"dir_spaces": spaceInfo, "initial_kinds": kindNames, "desired_options": wantNames, "globs": globs,
		"tree_dirs": []string{".", "a", "b/n"}})
	os.RemoveAll(base)
	r.Finish("dir part: every (initial kinds x desired options) assignment, and for cases with a write fault and >=2 desired entries every processing order of the desired map; tree part: every (initial layout x desired content) assignment, faulty ones repeated. distinct_nontrivial = distinct (initial,desired) cases in which something had to be written or removed or a fault was present")
}
