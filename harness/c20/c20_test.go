// C20 — assertions survive encoding; malformed input is rejected safely.
//
// Part 1 round trip: header values from a grammar (strings incl. empty / leading+trailing space / UTF-8 /
//
//	multi-line; lists; maps; nested to depth 3) x 6 assertion types x 3 bodies are signed with the real code,
//	encoded, decoded with Decode and with the stream Decoder, and compared field by field.
//
// Part 2 streams: every sequence of 1..3 assertions of a pool through Encoder/Decoder with several read chunkings.
// Part 3 malformed input: every prefix, every single-byte substitution/deletion/insertion of base encodings and
//
//	of a 2-assertion stream, and every text over {a : space newline -} up to a length bound placed as a header
//	block, to Decode and to the stream Decoder: result must be an error or a well-formed assertion; no panic, no hang.
//
// Part 4 decoder limits: headers / body / signature sizes at limit-1, limit, limit+1.
// Part 2b: signed assertions whose headers/body/headers+body sit around the decoder read-ahead sizes (4096, 8192) in
//
//	streams: byte-identical re-encoding and signature re-verification. Part 3c: every integer-valued header x boundary values.
package c20_test

import (
	"bytes"
	"encoding/base64"
	"encoding/json"
	"fmt"
	"io"
	"reflect"
	"regexp"
	"runtime"
	"strconv"
	"strings"
	"sync"
	"sync/atomic"
	"testing"
	"time"

	"github.com/snapcore/snapd/asserts"
	"github.com/snapcore/snapd/asserts/assertstest"
	eng "github.com/snapcore/snapd/verifengine"
)

// ---------------------------------------------------------------- fixture

var (
	signDB *assertstest.SigningDB
	now    = "2024-05-06T07:08:09Z"
)

const (
	snapID = "snapidsnapidsnapidsnapidsnapid01"
	digest = "QlqR0uAWEAWF5Nwnzj5kqmmwFslYPu1IL16MKtLKhwhv0kpBv5wKZ_axf_nf_2cL"
)

var typeNames = []string{"account", "model", "snap-declaration", "validation-set", "system-user", "repair"}

func template(typ string) (*asserts.AssertionType, map[string]interface{}) {
	h := map[string]interface{}{"timestamp": now}
	switch typ {
	case "account":
		h["account-id"] = "acc1"
		h["display-name"] = "Acc One"
		h["username"] = "acc1"
		h["validation"] = "unproven"
	case "model":
		h["series"] = "16"
		h["brand-id"] = "canonical"
		h["model"] = "m1"
		h["classic"] = "true"
	case "snap-declaration":
		h["series"] = "16"
		h["snap-id"] = snapID
		h["snap-name"] = "foo"
		h["publisher-id"] = "dev1"
	case "validation-set":
		h["series"] = "16"
		h["account-id"] = "canonical"
		h["name"] = "vs1"
		h["sequence"] = "2"
		h["revision"] = "3"
		h["snaps"] = []interface{}{map[string]interface{}{"name": "foo", "id": snapID, "presence": "required"}}
	case "system-user":
		delete(h, "timestamp")
		h["brand-id"] = "canonical"
		h["email"] = "user@example.com"
		h["series"] = []interface{}{"16"}
		h["models"] = []interface{}{"m1"}
		h["name"] = "User Name"
		h["username"] = "user1"
		h["password"] = "$6$salt$hash"
		h["since"] = now
		h["until"] = "2024-09-06T07:08:09Z"
	case "repair":
		h["brand-id"] = "canonical"
		h["repair-id"] = "7"
		h["summary"] = "repair seven"
		h["architectures"] = []interface{}{"amd64", "arm64"}
	default:
		eng.HarnessError("unknown type %q", typ)
	}
	return asserts.Type(typ), h
}

var bodies = map[string][]byte{
	"none":   nil,
	"text":   []byte("hello\nworld\n"),
	"binary": []byte("\n\n\x00\x01\x7fé✓\n\nsign-key-sha3-384: x\n\nAXNpZw==\n\n"),
}
var bodyKinds = []string{"none", "text", "binary"}

func sign(typ string, extra map[string]interface{}, body []byte) (asserts.Assertion, error) {
	t, h := template(typ)
	for k, v := range extra {
		h[k] = v
	}
	return signDB.Sign(t, h, body, "")
}

// ---------------------------------------------------------------- header value grammar

var fullStrings = []string{"", "a", " a", "a ", " ", "  x  y  ", "é✓", "a\nb", "\n", "a\n", "\na", "a\n\nb", " \n ", "- a", "a: b", "-", ":", "  - x\n    y", "#", "\t"}
var redStrings = []string{"", "a", " a ", "x\ny", "\n", "é"}

func strs(l []string) []interface{} {
	out := make([]interface{}, len(l))
	for i, s := range l {
		out[i] = s
	}
	return out
}

func containersOver(as, bs []interface{}) []interface{} {
	var out []interface{}
	for _, a := range as {
		out = append(out, []interface{}{a}, map[string]interface{}{"k": a})
	}
	for _, a := range as {
		for _, b := range bs {
			out = append(out, []interface{}{a, b}, map[string]interface{}{"k": a, "l-2": b})
		}
	}
	return out
}

// values: the top-level header values of the round-trip part.
func values(thorough bool) (vals []interface{}, edge []interface{}) {
	l1 := strs(redStrings)
	l2 := append(append([]interface{}{}, l1...), containersOver(l1, l1)...)
	var l3 []interface{}
	if thorough {
		l3 = containersOver(l2, l2)
	} else {
		l3 = containersOver(l2, l1)
	}
	vals = append(vals, strs(fullStrings)...)
	vals = append(vals, containersOver(strs(fullStrings), l1[:2])...)
	vals = append(vals, l2[len(l1):]...)
	vals = append(vals, l3...)
	e := []interface{}{}
	em := map[string]interface{}{}
	edge = []interface{}{
		e, em, []interface{}{e}, []interface{}{em}, map[string]interface{}{"k": e}, map[string]interface{}{"k": em},
		[]interface{}{e, "a"}, []interface{}{"a", e}, map[string]interface{}{"k": e, "l": "a"}, []interface{}{[]interface{}{e}},
		[]interface{}{map[string]interface{}{"k": "a"}, em},
	}
	return vals, edge
}

func hasEmptyContainer(v interface{}) bool {
	switch x := v.(type) {
	case []interface{}:
		if len(x) == 0 {
			return true
		}
		for _, e := range x {
			if hasEmptyContainer(e) {
				return true
			}
		}
	case map[string]interface{}:
		if len(x) == 0 {
			return true
		}
		for _, e := range x {
			if hasEmptyContainer(e) {
				return true
			}
		}
	}
	return false
}

// ---------------------------------------------------------------- comparing assertions

func sameAssertion(a, b asserts.Assertion) string {
	if a.Type() != b.Type() {
		return fmt.Sprintf("type differs: %v vs %v", a.Type(), b.Type())
	}
	if a.Revision() != b.Revision() {
		return fmt.Sprintf("revision differs: %d vs %d", a.Revision(), b.Revision())
	}
	if a.Format() != b.Format() {
		return fmt.Sprintf("format differs: %d vs %d", a.Format(), b.Format())
	}
	if !reflect.DeepEqual(a.Headers(), b.Headers()) {
		return fmt.Sprintf("headers differ: %s vs %s", eng.JSON(a.Headers()), eng.JSON(b.Headers()))
	}
	if !bytes.Equal(a.Body(), b.Body()) {
		return fmt.Sprintf("body differs: %q vs %q", a.Body(), b.Body())
	}
	ac, as := a.Signature()
	bc, bs := b.Signature()
	if !bytes.Equal(ac, bc) {
		return "signed content differs"
	}
	if !bytes.Equal(as, bs) {
		return fmt.Sprintf("signature differs: %q vs %q", as, bs)
	}
	return ""
}

// wellFormed: what any assertion returned without error must satisfy.
func wellFormed(a asserts.Assertion) string {
	if a == nil || reflect.ValueOf(a).IsNil() {
		return "nil assertion returned with a nil error"
	}
	if a.Type() == nil {
		return "assertion without a type"
	}
	if a.Revision() < 0 || a.Format() < 0 {
		return "negative revision or format"
	}
	for name, got := range map[string]int{"revision": a.Revision(), "format": a.Format()} {
		want := 0
		if hv := a.Header(name); hv != nil {
			s, ok := hv.(string)
			if !ok {
				return name + " header is not a string"
			}
			n, err := strconv.Atoi(s)
			if err != nil {
				return fmt.Sprintf("%s header %q is not a number but the assertion was accepted", name, s)
			}
			want = n
		}
		if got != want {
			return fmt.Sprintf("%s header says %d but the assertion reports %d", name, want, got)
		}
	}
	bl := 0
	if s, ok := a.Header("body-length").(string); ok {
		n, err := strconv.Atoi(s)
		if err != nil {
			return "body-length header is not a number: " + s
		}
		bl = n
	} else if a.Header("body-length") != nil {
		return "body-length header is not a string"
	}
	if bl != len(a.Body()) {
		return fmt.Sprintf("body-length header says %d but the body has %d bytes", bl, len(a.Body()))
	}
	for i, k := range a.Ref().PrimaryKey {
		if k == "" {
			return fmt.Sprintf("empty primary key component %d", i)
		}
	}
	content, sig := a.Signature()
	if len(content) == 0 || len(sig) == 0 {
		return "empty content or signature"
	}
	// it must survive its own encoding
	b, err := asserts.Decode(asserts.Encode(a))
	if err != nil {
		return "accepted, but its own encoding is rejected: " + err.Error()
	}
	if d := sameAssertion(a, b); d != "" {
		return "accepted, but decoding its own encoding gives a different assertion: " + d
	}
	return ""
}

// ---------------------------------------------------------------- guarded execution (panic / hang)

type c20Case struct {
	Kind    string          `json:"kind"` // roundtrip | stream | bytes | text | limit
	Type    string          `json:"type,omitempty"`
	Body    string          `json:"body,omitempty"`
	Value   json.RawMessage `json:"value,omitempty"`
	Stream  []int           `json:"stream,omitempty"`
	Chunk   int             `json:"chunk,omitempty"`
	Desc    string          `json:"desc,omitempty"`
	Input   string          `json:"input_b64,omitempty"`
	Limit   string          `json:"limit,omitempty"`
	Size    int             `json:"size,omitempty"`
	Place   string          `json:"place,omitempty"`
	Decoder string          `json:"decoder,omitempty"`
	HeadLen int             `json:"head_len,omitempty"`
	BodyLen int             `json:"body_len,omitempty"`
}

type slot struct {
	mu    sync.Mutex
	cas   *c20Case
	since time.Time
}

var slots []*slot

func enter(w int, c *c20Case) {
	s := slots[w]
	s.mu.Lock()
	s.cas, s.since = c, time.Now()
	s.mu.Unlock()
}

func leave(w int) {
	s := slots[w]
	s.mu.Lock()
	s.cas = nil
	s.mu.Unlock()
}

// hangAfter: microsecond operations get 30 s; the multi-megabyte limit cases get more (the machine may be loaded).
func hangAfter(c *c20Case) time.Duration {
	if c.Kind == "limit" {
		return 5 * time.Minute
	}
	return 5 * time.Minute
}

func watchdog(r *eng.Run, finish func(string)) {
	for {
		time.Sleep(2 * time.Second)
		for _, s := range slots {
			s.mu.Lock()
			c, since := s.cas, s.since
			s.mu.Unlock()
			if c != nil && time.Since(since) > hangAfter(c) {
				fmt.Printf("WATCHDOG: case %s:%s has been running for %v\n", c.Kind, c.Desc, time.Since(since))
				r.Violation("hang:"+c.Kind+":"+c.Desc, fmt.Sprintf("decoder did not return within %v", hangAfter(c)), c)
				finish("stopped by the watchdog")
			}
		}
	}
}

func parallelFor(n int, f func(w, i int)) {
	var wg sync.WaitGroup
	next := make(chan int, 64)
	for w := 0; w < len(slots); w++ {
		wg.Add(1)
		go func(w int) {
			defer wg.Done()
			for i := range next {
				f(w, i)
			}
		}(w)
	}
	for i := 0; i < n; i++ {
		next <- i
	}
	close(next)
	wg.Wait()
}

var reNorm = regexp.MustCompile(`"(?:[^"\\]|\\.)*"|[0-9]+`)

func errClass(err error) string {
	s := reNorm.ReplaceAllString(err.Error(), "_")
	if len(s) > 60 {
		s = s[:60]
	}
	return s
}

// chunkReader hands out at most n bytes per Read.
type chunkReader struct {
	b []byte
	n int
}

func (c *chunkReader) Read(p []byte) (int, error) {
	if len(c.b) == 0 {
		return 0, io.EOF
	}
	n := c.n
	if n > len(p) {
		n = len(p)
	}
	if n > len(c.b) {
		n = len(c.b)
	}
	copy(p, c.b[:n])
	c.b = c.b[n:]
	return n, nil
}

// judgeBytes gives arbitrary bytes to Decode and to the stream Decoder. Returns violation message or "".
func judgeBytes(r *eng.Run, w int, c *c20Case, x []byte, stats *byteStats) (key, msg string) {
	enter(w, c)
	defer leave(w)
	defer func() {
		if p := recover(); p != nil {
			buf := make([]byte, 2048)
			buf = buf[:runtime.Stack(buf, false)]
			key, msg = "panic:"+strings.ReplaceAll(fmt.Sprint(p), " ", "_"), fmt.Sprintf("decoder panicked: %v\n%s", p, buf)
		}
	}()
	stats.cases++
	// whole-buffer decoder
	a, err := asserts.Decode(x)
	switch {
	case err != nil:
		if a != nil && !reflect.ValueOf(a).IsNil() {
			return "", "Decode returned an assertion together with an error"
		}
		r.Distinct("decode_error", errClass(err))
		stats.rejected++
	default:
		stats.accepted++
		if m := wellFormed(a); m != "" {
			return "", "Decode: " + m
		}
		if !bytes.Equal(asserts.Encode(a), x) {
			return "", "Decode accepted the input but Encode of the result is not the input"
		}
	}
	// stream decoder
	dec := asserts.NewDecoder(&chunkReader{b: x, n: 4096})
	for n := 0; n < 8; n++ {
		a, err := dec.Decode()
		if err != nil {
			if a != nil && !reflect.ValueOf(a).IsNil() {
				return "", "Decoder.Decode returned an assertion together with an error"
			}
			if err != io.EOF {
				r.Distinct("stream_error", errClass(err))
			}
			break
		}
		stats.streamAccepted++
		if m := wellFormed(a); m != "" {
			if _, sig := a.Signature(); len(sig) > 0 && sig[0] == '\n' {
				// one root cause whatever the input: the stream decoder keeps newlines in front of the signature
				return "stream-decoder:signature-with-leading-newline", "Decoder: " + m
			}
			return "", "Decoder: " + m
		}
	}
	return "", ""
}

type byteStats struct {
	cases, accepted, rejected, streamAccepted int64
}

func (s *byteStats) addTo(t *byteStats) {
	atomic.AddInt64(&t.cases, s.cases)
	atomic.AddInt64(&t.accepted, s.accepted)
	atomic.AddInt64(&t.rejected, s.rejected)
	atomic.AddInt64(&t.streamAccepted, s.streamAccepted)
}

// ---------------------------------------------------------------- part 1: round trip

func roundTrip(typ, body string, v interface{}) (sigErr error, msg string) {
	a, err := sign(typ, map[string]interface{}{"x-val": v}, bodies[body])
	if err != nil {
		return err, ""
	}
	enc := asserts.Encode(a)
	b, err := asserts.Decode(enc)
	if err != nil {
		return nil, fmt.Sprintf("signed without error, but Decode(Encode(a)) fails: %v", err)
	}
	if d := sameAssertion(a, b); d != "" {
		return nil, "Decode(Encode(a)) != a: " + d
	}
	for _, chunk := range []int{1, 4096} {
		dec := asserts.NewDecoder(&chunkReader{b: enc, n: chunk})
		c, err := dec.Decode()
		if err != nil {
			return nil, fmt.Sprintf("stream Decoder (chunk %d) fails on Encode(a): %v", chunk, err)
		}
		if d := sameAssertion(a, c); d != "" {
			return nil, fmt.Sprintf("stream Decoder (chunk %d) != a: %s", chunk, d)
		}
		if _, err := dec.Decode(); err != io.EOF {
			return nil, fmt.Sprintf("stream Decoder (chunk %d): expected io.EOF after the only assertion, got %v", chunk, err)
		}
	}
	return nil, ""
}

func roundTripKey(typ, body string, v interface{}, msg string) string {
	if hasEmptyContainer(v) {
		// one root cause (empty lists/maps have no encoding), whatever the type, body and position; two symptoms
		if strings.Contains(msg, "Decode(Encode(a)) fails") {
			return "roundtrip:empty-container:undecodable"
		}
		return "roundtrip:empty-container:altered"
	}
	return "roundtrip:" + typ + ":" + body + ":" + eng.JSON(v)
}

// ---------------------------------------------------------------- part 3 helpers

func quickValues(orig byte) []byte {
	cands := []byte{'\n', '\r', ' ', ':', '-', '=', 'A', 'a', '0', '9', '\t', 0x00, 0x7f, 0x80, 0xc3, 0xff}
	for b := uint(0); b < 8; b++ {
		cands = append(cands, orig^(1<<b))
	}
	var out []byte
	seen := map[byte]bool{orig: true}
	for _, c := range cands {
		if !seen[c] {
			seen[c] = true
			out = append(out, c)
		}
	}
	return out
}

func allValues(orig byte) []byte {
	out := make([]byte, 0, 255)
	for v := 0; v < 256; v++ {
		if byte(v) != orig {
			out = append(out, byte(v))
		}
	}
	return out
}

type edit struct {
	desc string
	b    []byte
}

func editsAt(enc []byte, pos int, thorough bool) []edit {
	var out []edit
	vals := quickValues(enc[pos])
	if thorough {
		vals = allValues(enc[pos])
	}
	for _, v := range vals {
		m := append([]byte(nil), enc...)
		m[pos] = v
		out = append(out, edit{fmt.Sprintf("set:%d:0x%02x", pos, v), m})
	}
	out = append(out, edit{fmt.Sprintf("prefix:%d", pos), append([]byte(nil), enc[:pos]...)})
	out = append(out, edit{fmt.Sprintf("del:%d", pos), append(append([]byte(nil), enc[:pos]...), enc[pos+1:]...)})
	for _, v := range []byte{'\n', ' ', ':', '-', 'a', 0xff} {
		m := append(append(append([]byte(nil), enc[:pos]...), v), enc[pos:]...)
		out = append(out, edit{fmt.Sprintf("ins:%d:0x%02x", pos, v), m})
	}
	return out
}

// textAt: the idx-th string over the alphabet in length-then-lexicographic order.
func allTexts(alphabet string, maxLen int) int {
	n, p := 0, 1
	for l := 0; l <= maxLen; l++ {
		n += p
		p *= len(alphabet)
	}
	return n
}

func textAt(alphabet string, idx int) string {
	l, p := 0, 1
	for idx >= p {
		idx -= p
		p *= len(alphabet)
		l++
	}
	b := make([]byte, l)
	for i := l - 1; i >= 0; i-- {
		b[i] = alphabet[idx%len(alphabet)]
		idx /= len(alphabet)
	}
	return string(b)
}

const textAlphabet = "a: \n-"

func textInput(s string) []byte {
	return []byte("type: model\nauthority-id: canonical\nseries: 16\nbrand-id: canonical\nmodel: m1\nclassic: true\ntimestamp: " + now +
		"\nx" + s + "\nsign-key-sha3-384: " + digest + "\n\nAXNpZw==")
}

// ---------------------------------------------------------------- part 2b: assertions around the decoder's read-ahead sizes

var (
	bigMu    sync.Mutex
	bigCache = map[[2]int]asserts.Assertion{}
)

func patternBody(n int) []byte {
	return []byte(strings.Repeat("0123456789abcde\n", n/16+1)[:n])
}

// bigAssertion signs a snap-declaration whose headers+separator take exactly headLen bytes (0: no padding) and
// whose body has bodyLen bytes.
func bigAssertion(headLen, bodyLen int) asserts.Assertion {
	bigMu.Lock()
	defer bigMu.Unlock()
	if a, ok := bigCache[[2]int{headLen, bodyLen}]; ok {
		return a
	}
	mk := func(pad int) asserts.Assertion {
		extra := map[string]interface{}{}
		if pad > 0 {
			extra["x-pad"] = strings.Repeat("p", pad)
		}
		a, err := sign("snap-declaration", extra, patternBody(bodyLen))
		if err != nil {
			eng.HarnessError("C20: cannot sign padded assertion: %v", err)
		}
		return a
	}
	headOf := func(a asserts.Assertion) int {
		content, _ := a.Signature()
		if i := bytes.Index(content, []byte("\n\n")); i >= 0 {
			return i + 2
		}
		return len(content) + 2
	}
	a := mk(0)
	if headLen > 0 {
		one := headOf(mk(1))
		pad := 1 + headLen - one
		if pad < 1 {
			eng.HarnessError("C20: head length %d is below the unpadded size", headLen)
		}
		a = mk(pad)
		if headOf(a) != headLen {
			eng.HarnessError("C20: padded head is %d bytes, wanted %d", headOf(a), headLen)
		}
	}
	bigCache[[2]int{headLen, bodyLen}] = a
	return a
}

// checkBig streams the padded assertion alone, first or second (between two small ones) and demands, for every
// decoded assertion, field equality, a byte-identical encoding and a signature that still verifies.
func checkBig(small asserts.Assertion, headLen, bodyLen int, place string, chunk int) string {
	big := bigAssertion(headLen, bodyLen)
	var seq []asserts.Assertion
	switch place {
	case "alone":
		seq = []asserts.Assertion{big}
	case "first":
		seq = []asserts.Assertion{big, small}
	default:
		seq = []asserts.Assertion{small, big, small}
	}
	var buf bytes.Buffer
	enc := asserts.NewEncoder(&buf)
	for _, a := range seq {
		if err := enc.Encode(a); err != nil {
			eng.HarnessError("C20: Encoder: %v", err)
		}
	}
	pub, err := signDB.PublicKey("")
	if err != nil {
		eng.HarnessError("C20: %v", err)
	}
	dec := asserts.NewDecoder(&chunkReader{b: buf.Bytes(), n: chunk})
	for k, want := range seq {
		got, err := dec.Decode()
		if err != nil {
			return fmt.Sprintf("assertion %d of the stream: %v", k, err)
		}
		if d := sameAssertion(want, got); d != "" {
			return fmt.Sprintf("assertion %d of the stream: %s", k, d)
		}
		if !bytes.Equal(asserts.Encode(got), asserts.Encode(want)) {
			return fmt.Sprintf("assertion %d of the stream: Encode(decoded) differs from the original encoding", k)
		}
		if err := asserts.SignatureCheck(got, pub); err != nil {
			return fmt.Sprintf("assertion %d of the stream: the signature of the decoded assertion no longer verifies: %v", k, err)
		}
	}
	if _, err := dec.Decode(); err != io.EOF {
		return fmt.Sprintf("expected io.EOF at the end of the stream, got %v", err)
	}
	return ""
}

// ---------------------------------------------------------------- part 3c: integer-valued headers

// setHeader replaces (or adds after the first line) a top-level single-line header of an encoded assertion.
func setHeader(enc []byte, name, value string) []byte {
	head, rest := enc, []byte(nil)
	if i := bytes.Index(enc, []byte("\n\n")); i >= 0 {
		head, rest = enc[:i], enc[i:]
	}
	lines := strings.Split(string(head), "\n")
	var out []string
	done := false
	for i := 0; i < len(lines); i++ {
		if strings.HasPrefix(lines[i], name+":") {
			out = append(out, name+": "+value)
			done = true
			for i+1 < len(lines) && strings.HasPrefix(lines[i+1], " ") {
				i++ // drop continuation lines of the old value
			}
			continue
		}
		out = append(out, lines[i])
	}
	if !done {
		out = append(out[:1], append([]string{name + ": " + value}, out[1:]...)...)
	}
	return append([]byte(strings.Join(out, "\n")), rest...)
}

func intValues(headLen, bodyLen int) []string {
	vals := []string{
		"-9223372036854775809", "-9223372036854775808", "-9223372036854775807", "-4294967296", "-2147483649", "-2147483648", "-100000",
		"-65536", "-4097", "-4096", "-2", "-1", "-0", "0", "00", "+0", "1", "+1", "01", "007", "2", "4095", "4096", "4097", "65535", "65536",
		"131071", "131072", "131073", "2097151", "2097152", "2097153", "2147483647", "2147483648", "4294967295", "4294967296",
		"9223372036854775806", "9223372036854775807", "9223372036854775808", "18446744073709551615", "18446744073709551616",
		strings.Repeat("9", 100), "-" + strings.Repeat("9", 100), strings.Repeat("1", 20000), strings.Repeat("0", 5000) + "1",
		" 1", "1 ", "1.0", "1e3", "0x10", "0b1", "1_0", "", "-", "+", "١", "１",
	}
	// around the real body size and around the sizes at which a negative length makes the content buffer size negative
	for _, n := range []int{bodyLen - 1, bodyLen, bodyLen + 1, -bodyLen, -(headLen - 2), -(headLen - 1), -headLen, -(headLen + 1), -(headLen + 2), -(headLen + 3)} {
		vals = append(vals, strconv.Itoa(n))
	}
	return vals
}

var intHeaders = map[string][]string{
	"":               {"body-length", "revision", "format"},
	"validation-set": {"sequence"},
	"repair":         {"repair-id"},
}

// ---------------------------------------------------------------- part 4: limits

// limitInput builds a raw single assertion whose headers+separator, body or signature+separator have the given size.
func limitInput(which string, size int) []byte {
	head := "type: snap-declaration\nauthority-id: canonical\nseries: 16\nsnap-id: " + snapID + "\nsnap-name: foo\npublisher-id: dev1\ntimestamp: " + now
	tail := "\nsign-key-sha3-384: " + digest
	body := ""
	sig := "AXNpZw=="
	switch which {
	case "headers":
		// len(head + pad header + tail) + len("\n\n") == size
		fixed := len(head) + len("\nx-pad: ") + len(tail) + 2
		head += "\nx-pad: " + strings.Repeat("p", size-fixed)
	case "body":
		body = strings.Repeat("b", size)
		head += "\nbody-length: " + strconv.Itoa(size)
	case "signature":
		sig = strings.Repeat("A", size-2)
	}
	out := head + tail + "\n\n"
	if body != "" {
		out += body + "\n\n"
	}
	return []byte(out + sig + "\n")
}

type limitCase struct {
	which string
	limit int
	mk    func(r io.Reader) *asserts.Decoder
	name  string
}

// ---------------------------------------------------------------- the test

func TestC20(t *testing.T) {
	r := eng.Start("C20", "exploration", 90*time.Second, 12*time.Minute)
	r.Assume("assertions are signed with a freshly generated 752-bit test key through assertstest.SigningDB (no cross-checks; C20 is about the codec)",
		"a 'well-formed' accepted assertion: typed, body-length header equals body size, non-empty primary key, non-empty content and signature, Encode(result)==input for Decode, and decoding its own encoding gives the same assertion",
		"hang = a single decode call not returning within 30 s (5 min for the multi-megabyte limit cases) (watchdog); panic = recovered in the worker")
	key, _ := assertstest.GenerateKey(752)
	signDB = assertstest.NewSigningDB("canonical", key)
	for i := 0; i < runtime.NumCPU(); i++ {
		slots = append(slots, &slot{})
	}
	var finishOnce sync.Once
	finish := func(rule string) {
		finishOnce.Do(func() { r.Finish(rule) })
		select {} // another goroutine is exiting the process
	}
	go watchdog(r, finish)

	// pool of encodings used by parts 2 and 3
	var pool []asserts.Assertion
	poolSpec := []struct {
		typ, body string
		v         interface{}
	}{
		{"account", "none", "plain"},
		{"model", "none", "line one\nline two\n  indented"},
		{"snap-declaration", "text", []interface{}{"a", []interface{}{"b", "c\nd"}, map[string]interface{}{"k": "v", "l": []interface{}{"x"}}}},
		{"validation-set", "none", map[string]interface{}{"k": " padded ", "m": map[string]interface{}{"n": ""}}},
		{"system-user", "none", ""},
		{"repair", "binary", "é"},
	}
	for _, ps := range poolSpec {
		a, err := sign(ps.typ, map[string]interface{}{"x-val": ps.v}, bodies[ps.body])
		if err != nil {
			eng.HarnessError("C20 pool: %v", err)
		}
		pool = append(pool, a)
	}
	streamOf := func(idx []int) []byte {
		var buf bytes.Buffer
		enc := asserts.NewEncoder(&buf)
		for _, i := range idx {
			if err := enc.Encode(pool[i]); err != nil {
				eng.HarnessError("C20: Encoder: %v", err)
			}
		}
		return buf.Bytes()
	}
	checkStream := func(idx []int, chunk int) string {
		dec := asserts.NewDecoder(&chunkReader{b: streamOf(idx), n: chunk})
		for k, i := range idx {
			a, err := dec.Decode()
			if err != nil {
				return fmt.Sprintf("assertion %d of the stream: %v", k, err)
			}
			if d := sameAssertion(pool[i], a); d != "" {
				return fmt.Sprintf("assertion %d of the stream: %s", k, d)
			}
		}
		if _, err := dec.Decode(); err != io.EOF {
			return fmt.Sprintf("expected io.EOF at the end of the stream, got %v", err)
		}
		return ""
	}
	limits := []limitCase{
		{"headers", asserts.MaxHeadersSize, asserts.NewDecoder, "default"},
		{"body", asserts.MaxBodySize, asserts.NewDecoder, "default"},
		{"signature", asserts.MaxSignatureSize, asserts.NewDecoder, "default"},
		{"body", 1000, func(rd io.Reader) *asserts.Decoder {
			return asserts.NewDecoderWithTypeMaxBodySize(rd, map[*asserts.AssertionType]int{asserts.SnapDeclarationType: 1000})
		}, "type-max-body-size=1000"},
		{"body", asserts.MaxBodySize, func(rd io.Reader) *asserts.Decoder {
			return asserts.NewDecoderWithTypeMaxBodySize(rd, map[*asserts.AssertionType]int{asserts.ModelType: 1000})
		}, "type-max-body-size-of-another-type"},
	}
	// checkLimit: size <= limit must be accepted (and come out with that size), size > limit rejected with an error.
	checkLimit := func(lc limitCase, size int, place string, chunk int) string {
		in := limitInput(lc.which, size)
		if place == "second" {
			in = append(append(asserts.Encode(pool[0]), '\n'), in...)
		}
		dec := lc.mk(&chunkReader{b: in, n: chunk})
		if place == "second" {
			if _, err := dec.Decode(); err != nil {
				return fmt.Sprintf("the leading small assertion was rejected: %v", err)
			}
		}
		a, err := dec.Decode()
		if size > lc.limit {
			if err == nil {
				return fmt.Sprintf("%s of %d bytes accepted although the limit is %d", lc.which, size, lc.limit)
			}
			return ""
		}
		if err != nil {
			return fmt.Sprintf("%s of %d bytes rejected although the limit is %d: %v", lc.which, size, lc.limit, err)
		}
		if m := wellFormed(a); m != "" {
			return m
		}
		if lc.which == "body" && len(a.Body()) != size {
			return fmt.Sprintf("body of %d bytes came out with %d bytes", size, len(a.Body()))
		}
		if _, err := dec.Decode(); err != io.EOF {
			return fmt.Sprintf("expected io.EOF after the assertion, got %v", err)
		}
		return ""
	}

	// ---- replay
	if rc := r.ReplayCase(); rc != nil {
		var c c20Case
		if err := json.Unmarshal(rc, &c); err != nil {
			eng.HarnessError("C20 replay: %v", err)
		}
		for n := 0; n < 5; n++ {
			switch c.Kind {
			case "roundtrip":
				var v interface{}
				json.Unmarshal(c.Value, &v)
				serr, msg := roundTrip(c.Type, c.Body, v)
				fmt.Printf("replay roundtrip %s/%s/%s: sign err=%v %s\n", c.Type, c.Body, c.Value, serr, msg)
				if msg != "" {
					r.Violation(roundTripKey(c.Type, c.Body, v, msg), msg, c)
				}
			case "stream":
				msg := checkStream(c.Stream, c.Chunk)
				fmt.Printf("replay stream %v chunk %d: %s\n", c.Stream, c.Chunk, msg)
				if msg != "" {
					r.Violation(fmt.Sprintf("stream:%v:chunk=%d", c.Stream, c.Chunk), msg, c)
				}
			case "bytes", "text":
				x, _ := base64.StdEncoding.DecodeString(c.Input)
				k, msg := judgeBytes(r, 0, &c, x, &byteStats{})
				a, err := asserts.Decode(x)
				fmt.Printf("replay %s %s: Decode -> (%v, %v) %s\n", c.Kind, c.Desc, a != nil, err, msg)
				if msg != "" {
					if k == "" {
						k = c.Kind + ":" + c.Desc
					}
					r.Violation(k, msg, c)
				}
			case "bigstream":
				msg := checkBig(pool[0], c.HeadLen, c.BodyLen, c.Place, c.Chunk)
				fmt.Printf("replay bigstream %s: %s\n", c.Desc, msg)
				if msg != "" {
					r.Violation("bigstream:"+c.Desc, msg, c)
				}
			case "limit":
				for _, lc := range limits {
					if lc.which == c.Limit && lc.name == c.Decoder {
						msg := checkLimit(lc, c.Size, c.Place, c.Chunk)
						fmt.Printf("replay limit %s/%s size %d %s chunk %d: %s\n", c.Limit, c.Decoder, c.Size, c.Place, c.Chunk, msg)
						if msg != "" {
							r.Violation(fmt.Sprintf("limit:%s:%s:%d:%s:%d", c.Limit, c.Decoder, c.Size, c.Place, c.Chunk), msg, c)
						}
					}
				}
			default:
				eng.HarnessError("C20 replay: unknown kind %q", c.Kind)
			}
		}
		finish("replay")
	}

	// ---- part 1: round trip
	vals, edge := values(r.Thorough())
	vals = append(vals, edge...)
	var rtCases, rtSigned, rtRefusedBySign, rtMultiline int64
	type rtItem struct {
		typ, body string
	}
	var combos []rtItem
	for _, typ := range typeNames {
		for _, b := range bodyKinds {
			combos = append(combos, rtItem{typ, b})
		}
	}
	capped := int32(0)
	parallelFor(len(vals), func(w, i int) {
		if r.TimeUp() {
			atomic.StoreInt32(&capped, 1)
			return
		}
		v := vals[i]
		vj, _ := json.Marshal(v)
		for _, cb := range combos {
			c := &c20Case{Kind: "roundtrip", Type: cb.typ, Body: cb.body, Value: vj, Desc: cb.typ + ":" + cb.body + ":" + string(vj)}
			enter(w, c)
			serr, msg := func() (serr error, msg string) {
				defer func() {
					if p := recover(); p != nil {
						msg = fmt.Sprintf("panic: %v", p)
					}
				}()
				return roundTrip(cb.typ, cb.body, v)
			}()
			leave(w)
			atomic.AddInt64(&rtCases, 1)
			if serr != nil {
				atomic.AddInt64(&rtRefusedBySign, 1)
				r.Distinct("sign_refusal", errClass(serr))
				continue
			}
			atomic.AddInt64(&rtSigned, 1)
			if strings.Contains(string(vj), `\n`) || strings.HasPrefix(string(vj), "[") || strings.HasPrefix(string(vj), "{") {
				atomic.AddInt64(&rtMultiline, 1)
			}
			if msg != "" {
				r.Violation(roundTripKey(cb.typ, cb.body, v, msg), msg, c)
			}
		}
	})
	r.Sample(map[string]interface{}{"roundtrip_value": vals[len(vals)/2], "type": "model", "body": "binary"})

	// ---- part 2: streams of 1..3 assertions x read chunkings
	var streams [][]int
	n := len(pool)
	for a := 0; a < n; a++ {
		streams = append(streams, []int{a})
		for b := 0; b < n; b++ {
			streams = append(streams, []int{a, b})
			for c := 0; c < n; c++ {
				streams = append(streams, []int{a, b, c})
			}
		}
	}
	chunks := []int{1, 2, 7, 4095, 4096, 4097, 1 << 20}
	var streamCases int64
	parallelFor(len(streams), func(w, i int) {
		for _, ch := range chunks {
			c := &c20Case{Kind: "stream", Stream: streams[i], Chunk: ch, Desc: fmt.Sprintf("%v:chunk=%d", streams[i], ch)}
			enter(w, c)
			msg := checkStream(streams[i], ch)
			leave(w)
			atomic.AddInt64(&streamCases, 1)
			if msg != "" {
				r.Violation("stream:"+c.Desc, msg, c)
			}
		}
	})

	// ---- part 2b: assertions whose headers / body / headers+body sit around the decoder's read-ahead sizes
	smallHead := 0
	{
		content, _ := bigAssertion(0, 0).Signature()
		smallHead = len(content) + 2
	}
	headSizes := []int{0, 4094, 4095, 4096, 4097, 4098, 8191, 8192, 8193}
	bodySizes := []int{0, 1, 4096 - smallHead - 1, 4096 - smallHead, 4096 - smallHead + 1, 4095, 4096, 4097, 8192 - smallHead, 8191, 8192, 8193, 70000}
	bigChunks := []int{1, 4096, 4097, 1 << 20}
	type bwork struct {
		h, b  int
		place string
		chunk int
	}
	var bw []bwork
	for _, h := range headSizes {
		for _, b := range bodySizes {
			for _, place := range []string{"alone", "first", "second"} {
				for _, ch := range bigChunks {
					bw = append(bw, bwork{h, b, place, ch})
				}
			}
		}
	}
	var bigCases int64
	parallelFor(len(bw), func(w, i int) {
		x := bw[i]
		c := &c20Case{Kind: "bigstream", HeadLen: x.h, BodyLen: x.b, Place: x.place, Chunk: x.chunk, Desc: fmt.Sprintf("head=%d:body=%d:%s:chunk=%d", x.h, x.b, x.place, x.chunk)}
		enter(w, c)
		msg := func() (msg string) {
			defer func() {
				if p := recover(); p != nil {
					msg = fmt.Sprintf("panic: %v", p)
				}
			}()
			return checkBig(pool[0], x.h, x.b, x.place, x.chunk)
		}()
		leave(w)
		atomic.AddInt64(&bigCases, 1)
		if msg != "" {
			r.Violation("bigstream:"+c.Desc, msg, c)
		}
	})

	// ---- part 3a: every prefix and single-byte edit of each pool encoding and of a two-assertion stream
	var total byteStats
	type base struct {
		name string
		enc  []byte
	}
	var bases []base
	for i, a := range pool {
		bases = append(bases, base{poolSpec[i].typ, asserts.Encode(a)})
	}
	bases = append(bases, base{"stream-of-2", streamOf([]int{1, 2})})
	bounds := map[string]int{}
	for _, b := range bases {
		b := b
		bounds["bytes_"+b.name] = len(b.enc)
		parallelFor(len(b.enc)+1, func(w, pos int) {
			if r.TimeUp() {
				atomic.StoreInt32(&capped, 1)
				return
			}
			var es []edit
			if pos == len(b.enc) {
				es = []edit{{"whole", b.enc}, {"append:0x0a", append(append([]byte(nil), b.enc...), '\n')}, {"append:0x0a0a41", append(append([]byte(nil), b.enc...), '\n', '\n', 'A')}}
			} else {
				es = editsAt(b.enc, pos, r.Thorough())
			}
			var st byteStats
			for _, e := range es {
				c := &c20Case{Kind: "bytes", Desc: b.name + ":" + e.desc, Input: base64.StdEncoding.EncodeToString(e.b)}
				if k, msg := judgeBytes(r, w, c, e.b, &st); msg != "" {
					if k == "" {
						k = "bytes:" + c.Desc
					}
					r.Violation(k, msg, c)
				}
			}
			st.addTo(&total)
		})
	}

	// ---- part 3b: every text over the alphabet up to a length bound as a header block
	maxLen := r.Pick(7, 9)
	nTexts := allTexts(textAlphabet, maxLen)
	var textCases, textAccepted, resigned int64
	var seenParsed sync.Map
	const block = 4096
	parallelFor((nTexts+block-1)/block, func(w, bi int) {
		if r.TimeUp() {
			atomic.StoreInt32(&capped, 1)
			return
		}
		var st byteStats
		var acc, rs int64
		for idx := bi * block; idx < (bi+1)*block && idx < nTexts; idx++ {
			s := textAt(textAlphabet, idx)
			x := textInput(s)
			c := &c20Case{Kind: "text", Desc: fmt.Sprintf("%q", s), Input: base64.StdEncoding.EncodeToString(x)}
			if k, msg := judgeBytes(r, w, c, x, &st); msg != "" {
				if k == "" {
					k = "text:" + c.Desc
				}
				r.Violation(k, msg, c)
				continue
			}
			a, err := asserts.Decode(x)
			if err != nil {
				continue
			}
			acc++
			// the parsed value must itself survive signing and encoding (parse . encode . parse == parse)
			var v interface{}
			for name, hv := range a.Headers() {
				if name[0] == 'x' {
					v = hv
				}
			}
			vj := eng.JSON(v)
			if _, dup := seenParsed.LoadOrStore(vj, true); dup || v == nil {
				continue
			}
			rs++
			b, err := sign("model", map[string]interface{}{"x": v}, nil)
			if err != nil {
				r.Violation("text-resign:"+c.Desc, fmt.Sprintf("header value %s parsed from accepted text cannot be signed: %v", vj, err), c)
				continue
			}
			b2, err := asserts.Decode(asserts.Encode(b))
			if err != nil || !reflect.DeepEqual(b2.Header("x"), v) {
				r.Violation("text-reparse:"+c.Desc, fmt.Sprintf("header value %s parsed from accepted text does not survive its canonical encoding (err=%v)", vj, err), c)
			}
		}
		atomic.AddInt64(&textCases, st.cases)
		atomic.AddInt64(&textAccepted, acc)
		atomic.AddInt64(&resigned, rs)
		st.addTo(&total)
	})

	// ---- part 3c: every integer-valued header x boundary values x placement in a stream
	var intCases, intAcceptedBefore int64
	intAcceptedBefore = total.accepted + total.streamAccepted
	type iwork struct {
		base        string
		enc         []byte
		name, value string
	}
	var iw []iwork
	intBases := append([]base{}, bases[:len(pool)]...)
	intBases = append(intBases, base{"test-only", []byte("type: test-only\nauthority-id: canonical\nprimary-key: k\nsign-key-sha3-384: " + digest + "\n\nAXNpZw==\n")})
	for _, b := range intBases {
		headLen, bodyLen := len(b.enc), 0
		if c, _, ok := bytes.Cut(b.enc, []byte("\n\n")); ok {
			headLen = len(c) + 2
		}
		if a, err := asserts.Decode(b.enc); err == nil {
			bodyLen = len(a.Body())
		}
		for _, name := range append(append([]string{}, intHeaders[""]...), intHeaders[b.name]...) {
			for _, v := range intValues(headLen, bodyLen) {
				iw = append(iw, iwork{b.name, b.enc, name, v})
			}
		}
	}
	smallEnc := asserts.Encode(pool[0])
	parallelFor(len(iw), func(w, i int) {
		x := iw[i]
		m := setHeader(x.enc, x.name, x.value)
		var st byteStats
		for _, place := range []string{"single", "first", "second"} {
			in := m
			switch place {
			case "first":
				in = append(append(append([]byte(nil), m...), '\n'), smallEnc...)
			case "second":
				in = append(append(append([]byte(nil), smallEnc...), '\n'), m...)
			}
			v := x.value
			if len(v) > 40 {
				v = fmt.Sprintf("%s...(%d chars)", v[:12], len(v))
			}
			c := &c20Case{Kind: "bytes", Desc: fmt.Sprintf("int:%s:%s=%q:%s", x.base, x.name, v, place), Input: base64.StdEncoding.EncodeToString(in)}
			if k, msg := judgeBytes(r, w, c, in, &st); msg != "" {
				if k == "" {
					k = "bytes:" + c.Desc
				}
				r.Violation(k, msg, c)
			}
			atomic.AddInt64(&intCases, 1)
		}
		st.addTo(&total)
	})
	intAccepted := total.accepted + total.streamAccepted - intAcceptedBefore

	// ---- part 4: limits
	var limitCases, limitAccepted int64
	type lwork struct {
		lc    limitCase
		size  int
		place string
		chunk int
	}
	var lw []lwork
	for _, lc := range limits {
		for _, d := range []int{-2, -1, 0, 1, 2} {
			for _, place := range []string{"first", "second"} {
				lchunks := []int{4096, 1 << 22}
				if r.Thorough() {
					lchunks = append(lchunks, 1000, 1)
				}
				for _, ch := range lchunks {
					if ch == 1 && lc.limit > 1<<20 {
						continue // byte-at-a-time reads of multi-megabyte bodies add nothing but time
					}
					lw = append(lw, lwork{lc, lc.limit + d, place, ch})
				}
			}
		}
	}
	parallelFor(len(lw), func(w, i int) {
		x := lw[i]
		c := &c20Case{Kind: "limit", Limit: x.lc.which, Decoder: x.lc.name, Size: x.size, Place: x.place, Chunk: x.chunk,
			Desc: fmt.Sprintf("%s:%s:%d:%s:%d", x.lc.which, x.lc.name, x.size, x.place, x.chunk)}
		enter(w, c)
		msg := func() (msg string) {
			defer func() {
				if p := recover(); p != nil {
					msg = fmt.Sprintf("panic: %v", p)
				}
			}()
			return checkLimit(x.lc, x.size, x.place, x.chunk)
		}()
		leave(w)
		atomic.AddInt64(&limitCases, 1)
		if x.size <= x.lc.limit {
			atomic.AddInt64(&limitAccepted, 1)
		}
		if msg != "" {
			r.Violation("limit:"+c.Desc, msg, c)
		}
	})

	if atomic.LoadInt32(&capped) != 0 {
		r.Cap("time", "enumeration stopped early; the counters say what was done")
	}
	bounds["roundtrip_values"] = len(vals)
	bounds["roundtrip_types"] = len(typeNames)
	bounds["roundtrip_bodies"] = len(bodyKinds)
	bounds["stream_pool"] = len(pool)
	bounds["stream_chunkings"] = len(chunks)
	bounds["bigstream_head_sizes"] = len(headSizes)
	bounds["bigstream_body_sizes"] = len(bodySizes)
	bounds["bigstream_chunkings"] = len(bigChunks)
	bounds["integer_header_cases"] = len(iw)
	bounds["text_alphabet"] = len(textAlphabet)
	bounds["text_max_len"] = maxLen
	r.Info("bounds", bounds)
	r.Add("roundtrip_cases", rtCases)
	r.Add("roundtrip_signed", rtSigned)
	r.Add("roundtrip_refused_by_sign", rtRefusedBySign)
	r.Add("roundtrip_with_multiline_or_nested_value", rtMultiline)
	r.Add("stream_cases", streamCases)
	r.Add("malformed_inputs", total.cases)
	r.Add("malformed_accepted_by_decode", total.accepted)
	r.Add("malformed_rejected_by_decode", total.rejected)
	r.Add("malformed_assertions_out_of_stream_decoder", total.streamAccepted)
	r.Add("text_inputs", textCases)
	r.Add("text_inputs_accepted", textAccepted)
	r.Add("text_values_resigned", resigned)
	r.Add("bigstream_cases", bigCases)
	r.Add("integer_header_inputs", intCases)
	r.Add("integer_header_assertions_accepted", intAccepted)
	r.Add("limit_cases", limitCases)
	r.Add("limit_cases_at_or_below_limit", limitAccepted)
	r.Add("evaluations", rtCases+streamCases+bigCases+total.cases+limitCases)
	r.Add("distinct_nontrivial", rtMultiline+bigCases+total.rejected+limitCases)
	r.Sample(map[string]interface{}{"malformed_base": string(bases[2].enc)})
	finish("round trip: every grammar value x type x body; streams: every sequence of 1..3 pool assertions x chunking; malformed: every byte position of every base x {substitution values, prefix, deletion, insertions} and every text over the alphabet up to the length bound; limits: sizes limit-2..limit+2 x placement x chunking; big streams: head size x body size around 4096/8192 x placement x chunking (byte-identical encoding, signature re-verified); integer headers: every integer-valued header x boundary values x {single, first, second in stream}. distinct_nontrivial = round trips whose value is multi-line or nested + big-stream cases + malformed inputs rejected by Decode + limit cases")
}
