// C06 traced program. NOT a test binary (so osutil's snapdUnsafeIO shortcut for test binaries is off):
// it performs exactly one atomic-write style operation of the real snapd code on files below <dir>
// and is run under strace by verifharness/c06 (c06_test.go), which turns the system-call history
// into crash states. The pre-state of <dir> is laid out by the harness, not by this program.
//
// usage: prog <scenario> <dir> [args...]
package main

import (
	"fmt"
	"io"
	"os"
	"path/filepath"
	"strconv"
	"strings"
	"time"

	"github.com/snapcore/snapd/osutil"
	"github.com/snapcore/snapd/osutil/sys"
	"github.com/snapcore/snapd/overlord"
	"github.com/snapcore/snapd/overlord/state"
)

// chunkReader is a plain io.Reader (no WriteTo, not an *os.File): io.Copy falls back to its
// read/write loop, so every chunk becomes one write(2) on the temporary file.
type chunkReader struct {
	chunks [][]byte
}

func (c *chunkReader) Read(p []byte) (int, error) {
	if len(c.chunks) == 0 {
		return 0, io.EOF
	}
	n := copy(p, c.chunks[0])
	if n < len(c.chunks[0]) {
		c.chunks[0] = c.chunks[0][n:]
	} else {
		c.chunks = c.chunks[1:]
	}
	return n, nil
}

func die(format string, a ...interface{}) {
	fmt.Fprintf(os.Stderr, "c06prog: "+format+"\n", a...)
	os.Exit(3)
}

func must(err error) {
	if err != nil {
		die("%v", err)
	}
}

func loadState(path string) *state.State {
	f, err := os.Open(path)
	must(err)
	defer f.Close()
	st, err := state.ReadState(overlord.VerifC06StateBackend(path), f)
	must(err)
	return st
}

// chunksOf splits content into chunks whose sizes are given as a comma separated list; the last size
// is repeated / the rest goes into the last chunk.
func chunksOf(content []byte, sizes string) [][]byte {
	var res [][]byte
	for _, s := range strings.Split(sizes, ",") {
		n, err := strconv.Atoi(s)
		if err != nil || n <= 0 {
			die("bad chunk size %q", s)
		}
		if n > len(content) {
			n = len(content)
		}
		if n == 0 {
			break
		}
		res = append(res, content[:n])
		content = content[n:]
	}
	if len(content) > 0 {
		res = append(res, content)
	}
	return res
}

func main() {
	if len(os.Args) < 3 {
		die("usage: prog <scenario> <dir> [args...]")
	}
	if osutil.IsTestBinary() {
		die("this must not be a test binary")
	}
	scen, dir, args := os.Args[1], os.Args[2], os.Args[3:]
	p := func(name string) string { return filepath.Join(dir, name) }
	arg := func(i int) string {
		if i >= len(args) {
			die("scenario %s: missing argument %d", scen, i)
		}
		return args[i]
	}
	switch scen {
	case "state-first":
		// first checkpoint of a brand new state: state.New + modifying Unlock -> backend.Checkpoint
		st := state.New(overlord.VerifC06StateBackend(p("state.json")))
		st.Lock()
		st.Set("c06", arg(0))
		st.Unlock()
	case "state-set":
		// overwrite: load the existing state.json, change one key (arg1 == "-" deletes it), Unlock
		st := loadState(p("state.json"))
		st.Lock()
		if arg(1) == "-" {
			st.Set(arg(0), nil)
		} else {
			st.Set(arg(0), arg(1))
		}
		st.Unlock()
	case "reader":
		// osutil.AtomicWrite from a plain io.Reader: several write(2)s
		must(osutil.AtomicWrite(p(arg(0)), &chunkReader{chunks: chunksOf([]byte(arg(1)), arg(2))}, 0644, 0))
	case "file-chown":
		uid, err := strconv.Atoi(arg(2))
		must(err)
		gid, err := strconv.Atoi(arg(3))
		must(err)
		must(osutil.AtomicWriteFileChown(p(arg(0)), []byte(arg(1)), 0600, 0, sys.UserID(uid), sys.GroupID(gid)))
	case "file-follow":
		must(osutil.AtomicWriteFile(p(arg(0)), []byte(arg(1)), 0644, osutil.AtomicWriteFollow))
	case "file-mtime":
		aw, err := osutil.NewAtomicFile(p(arg(0)), 0644, 0, osutil.NoChown, osutil.NoChown)
		must(err)
		defer aw.Cancel()
		for _, c := range chunksOf([]byte(arg(1)), arg(2)) {
			_, err := aw.Write(c)
			must(err)
		}
		aw.SetModTime(time.Date(2001, 2, 3, 4, 5, 6, 0, time.UTC))
		must(aw.Commit())
	case "commit-as":
		aw, err := osutil.NewAtomicFile(p(arg(0)), 0644, 0, osutil.NoChown, osutil.NoChown)
		must(err)
		defer aw.Cancel()
		_, err = aw.Write([]byte(arg(2)))
		must(err)
		must(aw.CommitAs(p(arg(1))))
	case "cancel":
		aw, err := osutil.NewAtomicFile(p(arg(0)), 0644, 0, osutil.NoChown, osutil.NoChown)
		must(err)
		_, err = aw.Write([]byte(arg(1)))
		must(err)
		must(aw.Cancel())
	case "rename":
		must(osutil.AtomicRename(p(arg(0)), p(arg(1))))
	case "symlink":
		must(osutil.AtomicSymlink(arg(0), p(arg(1))))
	default:
		die("unknown scenario %q", scen)
	}
	fmt.Println("c06prog: ok")
}
