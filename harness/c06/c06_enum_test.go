package c06_test

// Second half of the C06 harness: running the program under strace, loading the pre-state,
// crash-state enumeration, oracle, replay and the test entry point.

import (
	"bytes"
	"context"
	"encoding/json"
	"fmt"
	"os"
	"os/exec"
	"path/filepath"
	"sort"
	"strconv"
	"strings"
	"sync"
	"sync/atomic"
	"testing"
	"time"

	eng "github.com/snapcore/snapd/verifengine"
)

// ---------------------------------------------------------------------------------------------
// pre-state / real directory snapshots

type snapEnt struct {
	Kind byte // 'd', 'f', 'l'
	Data string
}

func snapshotDir(root string) map[string]snapEnt {
	res := map[string]snapEnt{}
	err := filepath.Walk(root, func(p string, fi os.FileInfo, err error) error {
		if err != nil {
			return err
		}
		rel := "."
		if p != root {
			rel = p[len(root)+1:]
		}
		switch {
		case fi.IsDir():
			res[rel] = snapEnt{Kind: 'd'}
		case fi.Mode()&os.ModeSymlink != 0:
			l, err := os.Readlink(p)
			if err != nil {
				return err
			}
			res[rel] = snapEnt{Kind: 'l', Data: l}
		case fi.Mode().IsRegular():
			b, err := os.ReadFile(p)
			if err != nil {
				return err
			}
			res[rel] = snapEnt{Kind: 'f', Data: string(b)}
		default:
			return fmt.Errorf("unexpected file type at %s", p)
		}
		return nil
	})
	if err != nil {
		eng.HarnessError("cannot snapshot %s: %v", root, err)
	}
	return res
}

func newTrace(root string, pre map[string]snapEnt) *trace {
	t := &trace{root: root, preDirs: map[string]map[string]int{}, dirOps: map[string][]nsOp{}, dataOps: map[int][]dataOp{},
		fsyncs: map[int][]int{}, fsyncDirs: map[string][]int{}, vol: map[string]map[string]int{}, fds: map[int]*fdEnt{}}
	var paths []string
	for p := range pre {
		paths = append(paths, p)
	}
	sort.Strings(paths)
	for _, p := range paths {
		if pre[p].Kind == 'd' {
			t.dirNames = append(t.dirNames, p)
			t.preDirs[p] = map[string]int{}
			t.vol[p] = map[string]int{}
		}
	}
	for _, p := range paths {
		e := pre[p]
		if e.Kind == 'd' {
			continue
		}
		ino := &inode{id: len(t.inodes), kind: e.Kind, pre: true, label: "p:" + p}
		if e.Kind == 'f' {
			ino.base = []byte(e.Data)
		} else {
			ino.link = e.Data
		}
		t.inodes = append(t.inodes, ino)
		dir, name := filepath.Dir(p), filepath.Base(p)
		t.preDirs[dir][name] = ino.id
		t.vol[dir][name] = ino.id
	}
	return t
}

// parse interprets the strace log; err != "" is a harness error description.
func (t *trace) parse(log string) (errText string) {
	defer func() {
		if x := recover(); x != nil {
			if pe, ok := x.(parseError); ok {
				errText = pe.msg
				return
			}
			panic(x)
		}
	}()
	lines, nums, leftovers := mergeLines(log)
	for _, l := range leftovers {
		if strings.Contains(l, t.root) {
			perr("system call touching the scenario directory never returned: %.200q", l)
		}
	}
	for i, l := range lines {
		if l == "" || !strings.Contains(l, t.root) {
			continue
		}
		m := callRe.FindStringSubmatch(l)
		if m == nil {
			perr("line %d: cannot parse %.300q", nums[i], l)
		}
		t.syscalls++
		t.handle(m[1], splitArgs(m[2]), m[3], m[4], m[5], nums[i])
	}
	if len(t.fds) != 0 {
		// descriptors left open at exit are fine (no durability effect), nothing to do
	}
	return ""
}

// volatileSnapshot renders the model's volatile end state in the shape of snapshotDir.
func (t *trace) volatileSnapshot() map[string]snapEnt {
	res := map[string]snapEnt{}
	for d, ents := range t.vol {
		res[d] = snapEnt{Kind: 'd'}
		for name, ino := range ents {
			p := name
			if d != "." {
				p = d + "/" + name
			}
			if t.inodes[ino].kind == 'l' {
				res[p] = snapEnt{Kind: 'l', Data: t.inodes[ino].link}
			} else {
				res[p] = snapEnt{Kind: 'f', Data: string(t.volContent(ino))}
			}
		}
	}
	return res
}

func (t *trace) opsSignature() []string {
	res := make([]string, 0, len(t.events)+len(t.sigMeta))
	mi := 0
	for i, e := range t.events {
		for mi < len(t.sigMeta) && t.sigMeta[mi].pos <= i {
			res = append(res, fmt.Sprintf("[meta %s(%s)]", t.sigMeta[mi].what, t.label(t.sigMeta[mi].ino)))
			mi++
		}
		res = append(res, e.Desc)
	}
	for ; mi < len(t.sigMeta); mi++ {
		res = append(res, fmt.Sprintf("[meta %s(%s)]", t.sigMeta[mi].what, t.label(t.sigMeta[mi].ino)))
	}
	return res
}

// ---------------------------------------------------------------------------------------------
// running one scenario under strace

type runResult struct {
	sc    scenario
	tr    *trace
	final map[string]snapEnt
	pre   map[string]snapEnt
}

var straceArgs = []string{"-f", "-y", "-s", "4194304", "-e", "trace=%file,%desc,fsync,fdatasync,rename,renameat,renameat2"}

func runScenario(sc scenario, prog, workdir, runTag string, fromFiles map[string]map[string]snapEnt) *runResult {
	base := filepath.Join(workdir, "run", sc.Name+"."+runTag)
	root := filepath.Join(base, "d")
	if err := os.MkdirAll(root, 0755); err != nil {
		eng.HarnessError("%v", err)
	}
	must := func(err error) {
		if err != nil {
			eng.HarnessError("scenario %s: cannot lay out the pre-state: %v", sc.Name, err)
		}
	}
	must(os.WriteFile(filepath.Join(root, bystander), []byte(bystanderContent), 0644))
	for _, pf := range sc.Pre {
		p := filepath.Join(root, pf.Path)
		switch {
		case pf.Dir:
			must(os.MkdirAll(p, 0755))
		case pf.Link:
			must(os.Symlink(pf.Content, p))
		default:
			c := pf.Content
			if pf.From != "" {
				e, ok := fromFiles[pf.From][pf.Path]
				if !ok || e.Kind != 'f' {
					eng.HarnessError("scenario %s: %s of scenario %s is not available", sc.Name, pf.Path, pf.From)
				}
				c = e.Data
			}
			must(os.WriteFile(p, []byte(c), 0600))
		}
	}
	pre := snapshotDir(root)
	logPath := filepath.Join(base, "strace.log")
	ctx, cancel := context.WithTimeout(context.Background(), 4*time.Minute)
	defer cancel()
	args := append(append([]string{}, straceArgs...), "-o", logPath, prog, sc.Prog, root)
	args = append(args, sc.Args...)
	cmd := exec.CommandContext(ctx, "strace", args...)
	cmd.Dir = "/"
	// a clean environment: in particular SNAPD_UNSAFE_IO is only present where the scenario sets it
	cmd.Env = append([]string{"PATH=/usr/sbin:/usr/bin:/sbin:/bin", "HOME=/nonexistent", "LANG=C", "GODEBUG=asyncpreemptoff=1"}, sc.Env...)
	out, err := cmd.CombinedOutput()
	if err != nil || !strings.Contains(string(out), "c06prog: ok") {
		eng.HarnessError("scenario %s: traced program failed (%v): %s (work dir kept: %s)", sc.Name, err, firstN(string(out), 600), base)
	}
	logb, err := os.ReadFile(logPath)
	if err != nil {
		eng.HarnessError("scenario %s: %v", sc.Name, err)
	}
	tr := newTrace(root, pre)
	if e := tr.parse(string(logb)); e != "" {
		eng.HarnessError("scenario %s: strace log %s: %s", sc.Name, logPath, e)
	}
	final := snapshotDir(root)
	// the model's volatile end state must be the real directory, byte for byte
	vs := tr.volatileSnapshot()
	if d := diffSnap(vs, final); d != "" {
		eng.HarnessError("scenario %s: the abstract file system after replaying the parsed trace differs from the real directory (%s); log %s", sc.Name, d, logPath)
	}
	return &runResult{sc: sc, tr: tr, final: final, pre: pre}
}

func firstN(s string, n int) string {
	if len(s) > n {
		return s[:n] + "..."
	}
	return s
}

func diffSnap(a, b map[string]snapEnt) string {
	for p, e := range a {
		if f, ok := b[p]; !ok {
			return fmt.Sprintf("%s only in model", p)
		} else if e != f {
			return fmt.Sprintf("%s: model %c:%.80q real %c:%.80q", p, e.Kind, e.Data, f.Kind, f.Data)
		}
	}
	for p := range b {
		if _, ok := a[p]; !ok {
			return fmt.Sprintf("%s only in real directory", p)
		}
	}
	return ""
}

// ---------------------------------------------------------------------------------------------
// crash states

type obs struct {
	kind byte // 'a' absent, 'f' file content, 'l' link target
	data []byte
}

func (o obs) eq(p obs) bool { return o.kind == p.kind && bytes.Equal(o.data, p.data) }

func (o obs) String() string {
	switch o.kind {
	case 'a':
		return "absent"
	case 'l':
		return "L:" + string(o.data)
	}
	return "F:" + string(o.data)
}

func (o obs) short() string {
	s := o.String()
	if len(s) > 160 {
		return fmt.Sprintf("%s...(%d bytes)", s[:160], len(s)-2)
	}
	return s
}

type pendOp struct {
	ino   int
	slot  int // index into workItem.pendInos
	op    *dataOp
	radix int
	k     int // ordinal of the op among the inode's data operations
}

// workItem = one (prefix, per-directory persistence choice); its crash states are the choices for the
// pending data operations of the inodes that exist in that directory image.
type workItem struct {
	sc       int
	p        int
	dirK     []int                     // per trace.dirNames
	image    map[string]map[string]int // durable entries
	pendInos []int
	bases    [][]byte // durable content of pendInos at p
	pend     []pendOp
	total    int64   // number of choice vectors (full product) or len(vectors) (reduced)
	vectors  [][]int // explicit choice vectors when the product is too large (reduced enumeration)
	dirRank  int
	hasOps   bool // the prefix contains at least one namespace or data operation
	nsDrop   bool // some namespace operation of the prefix is not persisted
}

type caseRank struct {
	p, dirRank int
	idx        int64
}

func (a caseRank) less(b caseRank) bool {
	if a.p != b.p {
		return a.p < b.p
	}
	if a.dirRank != b.dirRank {
		return a.dirRank < b.dirRank
	}
	return a.idx < b.idx
}

type crashCase struct {
	Kind         string         `json:"kind"` // "crash-state" | "ordering"
	Tier         string         `json:"tier"`
	Scenario     string         `json:"scenario"`
	Prefix       int            `json:"prefix_len"`
	DirPersisted map[string]int `json:"dir_ops_persisted,omitempty"`
	Kept         map[string]int `json:"data_kept,omitempty"`
	Executed     []string       `json:"executed,omitempty"`
	Dropped      []string       `json:"dropped"`
	Target       target         `json:"target"`
	Observed     string         `json:"observed"`
	AllowedOld   string         `json:"allowed_old"`
	AllowedNew   string         `json:"allowed_new"`
	Class        string         `json:"class"`
	Ops          []string       `json:"ops"`
}

type scenCtx struct {
	idx      int
	sc       scenario
	tr       *trace
	oldObs   []obs // per target
	newObs   []obs
	hasOpsAt []bool
	// results
	states, nontrivial                   int64
	tOld, tNew, tAbsent, torn, reordered int64
	fullTraceStates, fullTraceNew        int64
	maxPend                              int64
	reduced                              bool
}

// lookup resolves rel in a durable image.
func (t *trace) lookup(image map[string]map[string]int, rel string, follow bool) (int, bool) {
	for hops := 0; hops < 8; hops++ {
		dir, name := filepath.Dir(rel), filepath.Base(rel)
		d, ok := image[dir]
		if !ok {
			return 0, false
		}
		ino, ok := d[name]
		if !ok {
			return 0, false
		}
		if t.inodes[ino].kind == 'l' && follow {
			l := t.inodes[ino].link
			if filepath.IsAbs(l) {
				return 0, false
			}
			rel = filepath.Join(dir, l)
			continue
		}
		return ino, true
	}
	return 0, false
}

// observe: what a reader finds at the target in a directory image, given the inode contents.
func (t *trace) observe(image map[string]map[string]int, tg target, content func(ino int) []byte) obs {
	ino, ok := t.lookup(image, tg.Path, tg.Mode == "content")
	if !ok {
		return obs{kind: 'a'}
	}
	if t.inodes[ino].kind == 'l' {
		return obs{kind: 'l', data: []byte(t.inodes[ino].link)}
	}
	return obs{kind: 'f', data: content(ino)}
}

func lastBefore(evs []int, p int) int {
	last := -1
	for _, e := range evs {
		if e < p {
			last = e
		}
	}
	return last
}

const maxPendingFull = 8
const maxProduct = int64(1) << 33

// workItems builds all (prefix, directory choice) items of a scenario.
func (c *scenCtx) workItems() []*workItem {
	t := c.tr
	var items []*workItem
	for p := 0; p <= len(t.events); p++ {
		lo := make([]int, len(t.dirNames))
		hi := make([]int, len(t.dirNames))
		for di, d := range t.dirNames {
			ls := lastBefore(t.fsyncDirs[d], p)
			for _, op := range t.dirOps[d] {
				if op.ev < p {
					hi[di]++
					if op.ev < ls {
						lo[di]++
					}
				}
			}
		}
		k := append([]int(nil), lo...)
		rank := 0
		for {
			items = append(items, c.makeItem(p, append([]int(nil), k...), hi, rank))
			rank++
			// next directory choice (mixed radix, first directory fastest)
			di := 0
			for di < len(k) {
				if k[di] < hi[di] {
					k[di]++
					break
				}
				k[di] = lo[di]
				di++
			}
			if di == len(k) {
				break
			}
		}
	}
	return items
}

func (c *scenCtx) makeItem(p int, dirK, hi []int, rank int) *workItem {
	t := c.tr
	it := &workItem{sc: c.idx, p: p, dirK: dirK, dirRank: rank, image: map[string]map[string]int{}, hasOps: c.hasOpsAt[p]}
	exists := map[int]bool{}
	for di, d := range t.dirNames {
		ents := map[string]int{}
		for n, ino := range t.preDirs[d] {
			ents[n] = ino
		}
		for i := 0; i < dirK[di]; i++ {
			op := t.dirOps[d][i]
			for _, n := range op.dels {
				delete(ents, n)
			}
			for _, s := range op.sets {
				ents[s.name] = s.ino
			}
		}
		if dirK[di] < hi[di] {
			it.nsDrop = true
		}
		it.image[d] = ents
		for _, ino := range ents {
			exists[ino] = true
		}
	}
	var inos []int
	for ino := range exists {
		inos = append(inos, ino)
	}
	sort.Ints(inos)
	it.total = 1
	overflow := false
	for _, ino := range inos {
		if t.inodes[ino].kind != 'f' {
			continue
		}
		lastSync := lastBefore(t.fsyncs[ino], p)
		base := append([]byte(nil), t.inodes[ino].base...)
		var pend []pendOp
		for k := range t.dataOps[ino] {
			op := &t.dataOps[ino][k]
			if op.ev >= p {
				break
			}
			if op.ev < lastSync {
				full := len(op.data)
				if op.trunc {
					full = 1
				}
				base = applyData(base, op, full)
				continue
			}
			radix := len(op.data) + 1
			if op.trunc {
				radix = 2
			}
			pend = append(pend, pendOp{ino: ino, op: op, radix: radix, k: k})
		}
		if len(pend) == 0 {
			continue
		}
		slot := len(it.pendInos)
		it.pendInos = append(it.pendInos, ino)
		it.bases = append(it.bases, base)
		for _, po := range pend {
			po.slot = slot
			it.pend = append(it.pend, po)
			if it.total > maxProduct/int64(po.radix) {
				overflow = true
			} else {
				it.total *= int64(po.radix)
			}
		}
	}
	if int64(len(it.pend)) > c.maxPend {
		c.maxPend = int64(len(it.pend))
	}
	if len(it.pend) > maxPendingFull || overflow {
		// reduced enumeration (Appendix C): none, all, each single one, each prefix, and every tear of the
		// operation following a fully persisted prefix
		c.reduced = true
		seen := map[string]bool{}
		add := func(v []int) {
			key := fmt.Sprint(v)
			if !seen[key] {
				seen[key] = true
				it.vectors = append(it.vectors, append([]int(nil), v...))
			}
		}
		n := len(it.pend)
		full := func(i int) int { return it.pend[i].radix - 1 }
		v := make([]int, n)
		add(v)
		for i := 0; i < n; i++ {
			for j := range v {
				v[j] = 0
			}
			v[i] = full(i)
			add(v)
		}
		for i := 0; i < n; i++ {
			for j := range v {
				v[j] = 0
				if j < i {
					v[j] = full(j)
				}
			}
			for kept := 0; kept <= full(i); kept++ {
				v[i] = kept
				add(v)
			}
		}
		it.total = int64(len(it.vectors))
	}
	return it
}

// decode turns a linear index into the choice vector (first pending operation fastest).
func (it *workItem) decode(idx int64, v []int) {
	if it.vectors != nil {
		copy(v, it.vectors[idx])
		return
	}
	for i := range it.pend {
		r := int64(it.pend[i].radix)
		v[i] = int(idx % r)
		idx /= r
	}
}

func classify(o, oldO, newO obs) string {
	switch {
	case o.kind == 'a':
		return "lost"
	case o.kind == 'l':
		return "wrong-link"
	case len(o.data) == 0:
		return "empty"
	case newO.kind == 'f' && len(o.data) < len(newO.data) && bytes.HasPrefix(newO.data, o.data):
		return "truncated-new"
	case oldO.kind == 'f' && len(o.data) < len(oldO.data) && bytes.HasPrefix(oldO.data, o.data):
		return "truncated-old"
	}
	return "mixed"
}

type found struct {
	rank caseRank
	it   *workItem
	v    []int
	tg   int
	o    string
	cls  string
}

type blockStats struct {
	states, nontrivial, tOld, tNew, tAbsent, torn, reordered, fullStates, fullNew int64
}

// evalRange checks the crash states idx in [from,to) of one work item.
func (c *scenCtx) evalRange(it *workItem, from, to int64, viol map[string]*found, st *blockStats) {
	t := c.tr
	v := make([]int, len(it.pend))
	bufs := make([][]byte, len(it.pendInos))
	slotOf := map[int]int{}
	for s, ino := range it.pendInos {
		slotOf[ino] = s
	}
	content := func(ino int) []byte {
		if s, ok := slotOf[ino]; ok {
			return bufs[s]
		}
		// no pending operations: durable content = pre-state + everything (all of it fsynced before p)
		return c.settled(ino, it.p)
	}
	full := it.p == len(t.events)
	for idx := from; idx < to; idx++ {
		it.decode(idx, v)
		for s := range bufs {
			bufs[s] = append(bufs[s][:0], it.bases[s]...)
		}
		tornHere, reord, incomplete := false, false, false
		for i := range it.pend {
			po := &it.pend[i]
			bufs[po.slot] = applyData(bufs[po.slot], po.op, v[i])
			if v[i] > 0 && incomplete {
				reord = true // (part of) a later operation persisted although an earlier one did not completely
			}
			if v[i] < po.radix-1 {
				incomplete = true
				if v[i] > 0 {
					tornHere = true
				}
			}
		}
		st.states++
		if it.hasOps {
			st.nontrivial++
		}
		if tornHere {
			st.torn++
		}
		if reord {
			st.reordered++
		}
		for ti, tg := range c.sc.Targets {
			o := t.observe(it.image, tg, content)
			isOld, isNew := o.eq(c.oldObs[ti]), o.eq(c.newObs[ti])
			if ti == 0 {
				switch {
				case isNew && !isOld:
					st.tNew++
				case isOld:
					if o.kind == 'a' {
						st.tAbsent++
					} else {
						st.tOld++
					}
				}
				if full {
					st.fullStates++
					if isNew {
						st.fullNew++
					}
				}
			}
			if isOld || isNew {
				continue
			}
			cls := classify(o, c.oldObs[ti], c.newObs[ti])
			key := fmt.Sprintf("%s:%s(%s):%s", c.sc.Name, tg.Path, tg.Mode, cls)
			rk := caseRank{it.p, it.dirRank, idx}
			if f, ok := viol[key]; !ok || rk.less(f.rank) {
				viol[key] = &found{rank: rk, it: it, v: append([]int(nil), v...), tg: ti, o: o.String(), cls: cls}
			}
		}
		// the bystander file must never change
		if o := t.observe(it.image, target{Path: bystander, Mode: "content"}, content); o.kind != 'f' || string(o.data) != bystanderContent {
			key := fmt.Sprintf("%s:%s(content):bystander-damaged", c.sc.Name, bystander)
			rk := caseRank{it.p, it.dirRank, idx}
			if f, ok := viol[key]; !ok || rk.less(f.rank) {
				viol[key] = &found{rank: rk, it: it, v: append([]int(nil), v...), tg: -1, o: o.String(), cls: "bystander-damaged"}
			}
		}
	}
}

// settled returns the durable content of an inode that has no pending data operations at prefix p.
func (c *scenCtx) settled(ino int, p int) []byte {
	t := c.tr
	buf := append([]byte(nil), t.inodes[ino].base...)
	for k := range t.dataOps[ino] {
		op := &t.dataOps[ino][k]
		if op.ev >= p {
			break
		}
		full := len(op.data)
		if op.trunc {
			full = 1
		}
		buf = applyData(buf, op, full)
	}
	return buf
}

// describe renders a crash state as a replayable case.
func (c *scenCtx) describe(tier string, it *workItem, v []int, ti int, observed, cls string) crashCase {
	t := c.tr
	cc := crashCase{Kind: "crash-state", Tier: tier, Scenario: c.sc.Name, Prefix: it.p, DirPersisted: map[string]int{}, Kept: map[string]int{},
		Observed: firstN(observed, 4000), Class: cls, Ops: t.opsSignature(), Dropped: []string{}}
	if ti >= 0 {
		cc.Target = c.sc.Targets[ti]
		cc.AllowedOld, cc.AllowedNew = firstN(c.oldObs[ti].String(), 4000), firstN(c.newObs[ti].String(), 4000)
	} else {
		cc.Target = target{Path: bystander, Mode: "content"}
		cc.AllowedOld, cc.AllowedNew = "F:"+bystanderContent, "F:"+bystanderContent
	}
	for i := 0; i < it.p; i++ {
		cc.Executed = append(cc.Executed, t.events[i].Desc)
	}
	for di, d := range t.dirNames {
		n := 0
		for _, op := range t.dirOps[d] {
			if op.ev < it.p {
				n++
			}
		}
		if n == 0 {
			continue
		}
		cc.DirPersisted[d] = it.dirK[di]
		for i := it.dirK[di]; i < n; i++ {
			cc.Dropped = append(cc.Dropped, fmt.Sprintf("dir %s: %s", d, t.events[t.dirOps[d][i].ev].Desc))
		}
	}
	for i, po := range it.pend {
		cc.Kept[fmt.Sprintf("%s#%d", t.label(po.ino), po.k)] = v[i]
		if v[i] < po.radix-1 {
			if po.op.trunc {
				cc.Dropped = append(cc.Dropped, t.events[po.op.ev].Desc)
			} else {
				cc.Dropped = append(cc.Dropped, fmt.Sprintf("%s: only %d of %d bytes persisted", t.events[po.op.ev].Desc, v[i], len(po.op.data)))
			}
		}
	}
	return cc
}

// orderingFacts checks, on the complete trace, that a newly created file is fsynced (after its last
// data operation) before it is renamed. Returns violation classes.
func (c *scenCtx) orderingFacts() []string {
	t := c.tr
	var res []string
	for _, d := range t.dirNames {
		for _, op := range t.dirOps[d] {
			if len(op.dels) == 0 || len(op.sets) == 0 {
				continue // only renames
			}
			ino := op.sets[0].ino
			if t.inodes[ino].pre || t.inodes[ino].kind != 'f' || len(t.dataOps[ino]) == 0 {
				continue
			}
			lastData := -1
			for _, dop := range t.dataOps[ino] {
				if dop.ev < op.ev && dop.ev > lastData {
					lastData = dop.ev
				}
			}
			sync := lastBefore(t.fsyncs[ino], op.ev)
			if sync < 0 {
				res = append(res, "rename-without-prior-fsync")
			} else if lastData > sync {
				res = append(res, "data-written-after-last-fsync-before-rename")
			}
		}
	}
	sort.Strings(res)
	return res
}

// ---------------------------------------------------------------------------------------------
// building the program

func buildProg(workdir string) string {
	ov, repo := os.Getenv("VERIF_OVERLAY"), os.Getenv("VERIF_REPO")
	if repo == "" {
		repo = "/repo"
	}
	if ov == "" {
		eng.HarnessError("VERIF_OVERLAY is not set (run through ./check)")
	}
	out := filepath.Join(workdir, "prog")
	cmd := exec.Command("go", "build", "-tags", "verif", "-overlay", ov, "-o", out, "./verifharness/c06/prog")
	cmd.Dir = repo
	cmd.Env = append(os.Environ(), "GOFLAGS=-mod=mod", "GOPROXY=off", "GOSUMDB=off", "GOTOOLCHAIN=local")
	if b, err := cmd.CombinedOutput(); err != nil {
		eng.HarnessError("cannot build the traced program: %v\n%s", err, b)
	}
	return out
}

// traceAll runs every scenario twice (in parallel, respecting the From dependencies), checks that
// both runs give the same operation signature and returns the first run of each.
func traceAll(scs []scenario, prog, workdir string, only string) []*runResult {
	res := make([]*runResult, len(scs))
	done := make([]chan struct{}, len(scs))
	byName := map[string]int{}
	for i, sc := range scs {
		done[i] = make(chan struct{})
		byName[sc.Name] = i
	}
	needed := map[string]bool{}
	if only != "" {
		var mark func(n string)
		mark = func(n string) {
			needed[n] = true
			for _, pf := range scs[byName[n]].Pre {
				if pf.From != "" {
					mark(pf.From)
				}
			}
		}
		if _, ok := byName[only]; !ok {
			eng.HarnessError("unknown scenario %q", only)
		}
		mark(only)
	}
	var wg sync.WaitGroup
	var mu sync.Mutex
	finals := map[string]map[string]snapEnt{}
	for i := range scs {
		if only != "" && !needed[scs[i].Name] {
			continue
		}
		wg.Add(1)
		go func(i int) {
			defer wg.Done()
			defer close(done[i])
			sc := scs[i]
			for _, pf := range sc.Pre {
				if pf.From != "" {
					<-done[byName[pf.From]]
				}
			}
			mu.Lock()
			from := map[string]map[string]snapEnt{}
			for k, v := range finals {
				from[k] = v
			}
			mu.Unlock()
			var a, b *runResult
			var w2 sync.WaitGroup
			w2.Add(2)
			go func() { defer w2.Done(); a = runScenario(sc, prog, workdir, "1", from) }()
			go func() { defer w2.Done(); b = runScenario(sc, prog, workdir, "2", from) }()
			w2.Wait()
			sa, sb := a.tr.opsSignature(), b.tr.opsSignature()
			if strings.Join(sa, "\n") != strings.Join(sb, "\n") {
				eng.HarnessError("scenario %s is not deterministic: two runs gave different operation sequences:\n%s\n--- vs ---\n%s", sc.Name, strings.Join(sa, "\n"), strings.Join(sb, "\n"))
			}
			mu.Lock()
			finals[sc.Name] = a.final
			mu.Unlock()
			res[i] = a
		}(i)
	}
	wg.Wait()
	return res
}

// newCtx computes the allowed observations and sanity-checks the scenario outcome.
func newCtx(i int, rr *runResult) *scenCtx {
	c := &scenCtx{idx: i, sc: rr.sc, tr: rr.tr}
	t := rr.tr
	preContent := func(ino int) []byte { return t.inodes[ino].base }
	volContent := func(ino int) []byte { return t.volContent(ino) }
	for _, tg := range rr.sc.Targets {
		c.oldObs = append(c.oldObs, t.observe(t.preDirs, tg, preContent))
		c.newObs = append(c.newObs, t.observe(t.vol, tg, volContent))
	}
	got := c.newObs[0].String()
	sc := rr.sc
	if sc.WantNew != "" {
		want := sc.WantNew
		if sc.Targets[0].Mode == "content" {
			want = "F:" + want
		}
		if got != want {
			eng.HarnessError("scenario %s: after the complete run the target holds %.200q, expected %.200q", sc.Name, got, want)
		}
	}
	if sc.WantNewHas != "" {
		var js map[string]interface{}
		if c.newObs[0].kind != 'f' || !strings.Contains(got, sc.WantNewHas) || json.Unmarshal(c.newObs[0].data, &js) != nil {
			eng.HarnessError("scenario %s: after the complete run the target holds %.300q, expected valid JSON containing %.80q", sc.Name, got, sc.WantNewHas)
		}
	}
	if sc.NoChange != c.oldObs[0].eq(c.newObs[0]) {
		eng.HarnessError("scenario %s: old observation %.100q, new observation %.100q: vacuous or unexpected", sc.Name, c.oldObs[0].String(), got)
	}
	c.hasOpsAt = make([]bool, len(t.events)+1)
	for p := 1; p <= len(t.events); p++ {
		k := t.events[p-1].Kind
		c.hasOpsAt[p] = c.hasOpsAt[p-1] || k == "ns" || k == "data"
	}
	return c
}

const blockSize = int64(1) << 15

type block struct {
	c        *scenCtx
	it       *workItem
	from, to int64
}

func TestC06(t *testing.T) {
	r := eng.Start("C06", "fault_enumeration", 60*time.Second, 12*time.Minute)
	r.Assume(
		"persistence model of DESIGN.md Appendix C (not a specific file system): the pre-state is durable; data operations of an inode after its last fsync/fdatasync persist as any subset, each write possibly torn to any byte prefix (holes read as zeros); namespace operations of one directory after its last fsync persist as a prefix, in order; a cross-directory rename is two independent half operations; a same-directory rename is atomic; a symlink's target is part of its creation",
		"strace -f -y reports every system call of the traced program that names a path or descriptor below the scenario directory; the parser is strict (anything unrecognised is exit 2) and the abstract file system obtained by replaying the parsed trace is compared byte for byte with the real directory after every run",
		"metadata (owner, mode, times) is not part of the oracle; the traced program is built from the working tree as a non-test binary with the same overlay as this harness",
	)
	workdir := filepath.Join(eng.WorkDir(), "c06", fmt.Sprintf("%d", os.Getpid()))
	os.RemoveAll(workdir)
	if err := os.MkdirAll(workdir, 0755); err != nil {
		eng.HarnessError("%v", err)
	}
	cleanup := func() { os.RemoveAll(workdir) }

	if rc := r.ReplayCase(); rc != nil {
		replay(r, rc, workdir)
		cleanup()
		r.Finish("replay")
	}

	tier := r.Tier
	scs := scenarios(r.Pick)
	t0 := time.Now()
	prog := buildProg(workdir)
	buildS := time.Since(t0).Seconds()
	t1 := time.Now()
	runs := traceAll(scs, prog, workdir, "")
	traceS := time.Since(t1).Seconds()

	var ctxs []*scenCtx
	var blocks []block
	perScenario := map[string]interface{}{}
	var totalSyscalls, totalOps int
	for i, rr := range runs {
		c := newCtx(i, rr)
		ctxs = append(ctxs, c)
		r.Add("traces_validated_against_real_directory", 2)
		totalSyscalls += rr.tr.syscalls
		totalOps += len(rr.tr.events)
		for _, it := range c.workItems() {
			for from := int64(0); from < it.total; from += blockSize {
				to := from + blockSize
				if to > it.total {
					to = it.total
				}
				blocks = append(blocks, block{c, it, from, to})
			}
		}
	}

	// enumerate
	var mu sync.Mutex
	viol := map[string]*found{}
	violCtx := map[string]*scenCtx{}
	var skipped int64
	stats := make([]blockStats, len(ctxs))
	// the soft budget covers the enumeration only: building the program and tracing it cost what the
	// machine's load dictates and must not eat the time in which the crash states are checked
	budget := time.Duration(r.Pick(60, 720)) * time.Second
	if bs, err := strconv.Atoi(os.Getenv("VERIF_BUDGET_S")); err == nil && bs > 0 {
		budget = time.Duration(bs) * time.Second
	}
	enumStart := time.Now()
	eng.ParallelFor(len(blocks), func(bi int) {
		b := blocks[bi]
		if time.Since(enumStart) > budget {
			atomic.AddInt64(&skipped, 1)
			return
		}
		local := map[string]*found{}
		var st blockStats
		b.c.evalRange(b.it, b.from, b.to, local, &st)
		mu.Lock()
		s := &stats[b.c.idx]
		s.states += st.states
		s.nontrivial += st.nontrivial
		s.tOld += st.tOld
		s.tNew += st.tNew
		s.tAbsent += st.tAbsent
		s.torn += st.torn
		s.reordered += st.reordered
		s.fullStates += st.fullStates
		s.fullNew += st.fullNew
		for k, f := range local {
			if g, ok := viol[k]; !ok || f.rank.less(g.rank) {
				viol[k] = f
				violCtx[k] = b.c
			}
		}
		mu.Unlock()
	})
	if skipped > 0 {
		r.Cap("time", fmt.Sprintf("%d of %d blocks of crash states not enumerated", skipped, len(blocks)))
	}

	// report
	var keys []string
	for k := range viol {
		keys = append(keys, k)
	}
	sort.Strings(keys)
	for _, k := range keys {
		f, c := viol[k], violCtx[k]
		cc := c.describe(tier, f.it, f.v, f.tg, f.o, f.cls)
		lost := "nothing lost (everything executed so far is on disk)"
		if len(cc.Dropped) > 0 {
			lost = "not persisted: " + strings.Join(cc.Dropped, "; ")
		}
		msg := fmt.Sprintf("scenario %s: crash after %d operations (last: %s), %s: leaves %s at %s; allowed: %s | %s",
			c.sc.Name, f.it.p, lastOp(c.tr, f.it.p), lost, kindText(f.o), cc.Target.Path,
			firstN(cc.AllowedOld, 80), firstN(cc.AllowedNew, 80))
		r.Violation(k, msg, cc)
	}
	durable := 0
	for i, c := range ctxs {
		s := stats[i]
		for _, cls := range c.orderingFacts() {
			cc := crashCase{Kind: "ordering", Tier: tier, Scenario: c.sc.Name, Prefix: len(c.tr.events), Class: cls, Ops: c.tr.opsSignature(),
				Target: c.sc.Targets[0], Dropped: []string{}}
			r.Violation(fmt.Sprintf("%s:order:%s", c.sc.Name, cls),
				fmt.Sprintf("scenario %s: the temporary file replaces the target before its content is durably written (%s); operations: %s", c.sc.Name, cls, strings.Join(cc.Ops, " ; ")), cc)
		}
		dur := s.fullStates > 0 && s.fullStates == s.fullNew
		if dur {
			durable++
		} else if skipped == 0 {
			fmt.Printf("INFO C06 scenario %s: after the successful call the new content is NOT guaranteed durable (%d of %d crash states of the complete trace show it); not an old-or-new violation\n", c.sc.Name, s.fullNew, s.fullStates)
		}
		var metaLate []string
		for _, m := range c.tr.sigMeta {
			if ls := lastBefore(c.tr.fsyncs[m.ino], len(c.tr.events)); ls < 0 || m.pos > ls {
				metaLate = append(metaLate, m.what)
			}
		}
		perScenario[c.sc.Name] = map[string]interface{}{
			"syscalls_touching_dir": c.tr.syscalls, "operations": len(c.tr.events), "prefixes": len(c.tr.events) + 1,
			"crash_states": s.states, "nontrivial": s.nontrivial, "target_old": s.tOld, "target_absent_as_old": s.tAbsent, "target_new": s.tNew,
			"torn": s.torn, "reordered": s.reordered, "max_pending_data_ops": c.maxPend, "durable_after_success": dur,
			"metadata_ops_after_last_fsync": metaLate, "reduced_enumeration": c.reduced,
		}
		if c.reduced {
			r.Cap("pending_data_ops:"+c.sc.Name, fmt.Sprintf("more than %d un-fsynced data operations (or product > 2^33): reduced enumeration (none, all, each single, each prefix, tears of the next one)", maxPendingFull))
		}
		r.Add("evaluations", s.states)
		r.Add("distinct_nontrivial", s.nontrivial)
		r.Add("states_target_old", s.tOld)
		r.Add("states_target_absent_as_old", s.tAbsent)
		r.Add("states_target_new", s.tNew)
		r.Add("states_with_torn_write", s.torn)
		r.Add("states_with_reordered_persistence", s.reordered)
		r.Max("max_pending_data_ops", c.maxPend)
		if s.tNew > 0 {
			r.Distinct("outcome", c.sc.Name+":new")
		}
		if s.tOld > 0 {
			r.Distinct("outcome", c.sc.Name+":old")
		}
		if s.tAbsent > 0 {
			r.Distinct("outcome", c.sc.Name+":absent")
		}
	}
	r.Add("scenarios", int64(len(ctxs)))
	r.Add("scenarios_durable_after_success", int64(durable))
	r.Add("syscalls_parsed", int64(totalSyscalls))
	r.Add("operations", int64(totalOps))
	r.Add("prefixes", int64(totalOps+len(ctxs)))
	r.Info("per_scenario", perScenario)
	r.Info("bounds", map[string]interface{}{"scenarios": len(ctxs), "reader_writes": r.Pick(6, 8), "reader_bytes_per_write": r.Pick(6, 7),
		"state_pad_bytes": r.Pick(96, 1500), "max_pending_data_ops_full_product": maxPendingFull, "tear_granularity_bytes": 1})
	r.Info("build_s", buildS)
	r.Info("trace_s", traceS)
	r.Info("enumeration_s", time.Since(enumStart).Seconds())
	r.Info("trace_state_first", ctxs[0].tr.opsSignature())

	// samples: a state in the window between rename and directory fsync, a torn multi-write state, the longest prefix
	for _, want := range []struct {
		sc   string
		pick func(c *scenCtx, it *workItem) bool
		idx  func(it *workItem) int64
	}{
		{"state-first", func(c *scenCtx, it *workItem) bool {
			return it.p >= 1 && it.p < len(c.tr.events) && strings.HasPrefix(c.tr.events[it.p-1].Desc, "rename") && !it.nsDrop
		}, func(it *workItem) int64 { return 0 }},
		{"reader-overwrite", func(c *scenCtx, it *workItem) bool { return len(it.pend) >= r.Pick(6, 8) && !it.nsDrop }, func(it *workItem) int64 { return it.total / 3 }},
		{"state-shorter", func(c *scenCtx, it *workItem) bool { return it.p == len(c.tr.events) }, func(it *workItem) int64 { return it.total - 1 }},
	} {
		for _, c := range ctxs {
			if c.sc.Name != want.sc {
				continue
			}
			for _, it := range c.workItems() {
				if want.pick(c, it) {
					v := make([]int, len(it.pend))
					idx := want.idx(it)
					it.decode(idx, v)
					local := map[string]*found{}
					var st blockStats
					c.evalRange(it, idx, idx+1, local, &st)
					o := sampleObs(c, it, v)
					cc := c.describe(tier, it, v, 0, o, "sample")
					cc.Ops = nil
					r.Sample(cc)
					break
				}
			}
		}
	}
	cleanup()
	r.Finish("every scenario's parsed operation sequence (namespace, data, fsync operations) x every prefix x every persistence choice of the model: per directory every prefix of its namespace operations since its last fsync, per existing inode every subset of its data operations since its last fsync with every byte-granular tear; oracle: observation at the target (and co-targets) is the complete old or the complete new one, bystander file intact, temp file fsynced before rename. distinct_nontrivial = crash states whose prefix contains at least one namespace or data operation, i.e. whose disk image differs from the pre-state or which lose at least one executed operation (all others are the untouched pre-state)")
}

func lastOp(t *trace, p int) string {
	if p == 0 {
		return "none"
	}
	return t.events[p-1].Desc
}

func kindText(s string) string {
	switch {
	case s == "absent":
		return "nothing"
	case strings.HasPrefix(s, "L:"):
		return fmt.Sprintf("a link to %q", s[2:])
	}
	return fmt.Sprintf("a file with %d bytes %.60q", len(s)-2, s[2:])
}

func sampleObs(c *scenCtx, it *workItem, v []int) string {
	bufs := make([][]byte, len(it.pendInos))
	for s := range bufs {
		bufs[s] = append([]byte(nil), it.bases[s]...)
	}
	for i := range it.pend {
		bufs[it.pend[i].slot] = applyData(bufs[it.pend[i].slot], it.pend[i].op, v[i])
	}
	o := c.tr.observe(it.image, c.sc.Targets[0], func(ino int) []byte {
		for s, pi := range it.pendInos {
			if pi == ino {
				return bufs[s]
			}
		}
		return c.settled(ino, it.p)
	})
	return o.String()
}

// replay re-traces the scenario of a recorded case and evaluates exactly that crash state.
func replay(r *eng.Run, rc json.RawMessage, workdir string) {
	var cc crashCase
	if err := json.Unmarshal(rc, &cc); err != nil {
		eng.HarnessError("cannot parse replay case: %v", err)
	}
	pick := func(q, t int) int {
		if cc.Tier == "thorough" {
			return t
		}
		return q
	}
	scs := scenarios(pick)
	prog := buildProg(workdir)
	runs := traceAll(scs, prog, workdir, cc.Scenario)
	var c *scenCtx
	for i, rr := range runs {
		if rr != nil && rr.sc.Name == cc.Scenario {
			c = newCtx(i, rr)
		}
	}
	if c == nil {
		eng.HarnessError("scenario %q not found", cc.Scenario)
	}
	ops := c.tr.opsSignature()
	fmt.Printf("replay scenario %s: operations of this run:\n", cc.Scenario)
	for i, o := range ops {
		fmt.Printf("  %2d %s\n", i, o)
	}
	if cc.Kind == "ordering" {
		facts := c.orderingFacts()
		fmt.Printf("replay ordering facts: %v (recorded: %s)\n", facts, cc.Class)
		for _, cls := range facts {
			r.Violation(fmt.Sprintf("%s:order:%s", c.sc.Name, cls), "temporary file replaces the target before its content is durably written: "+cls, cc)
		}
		return
	}
	if strings.Join(ops, "\n") != strings.Join(cc.Ops, "\n") {
		fmt.Printf("replay note: the operation sequence differs from the recorded one (the tree changed since the case was recorded?):\n  recorded: %s\n", strings.Join(cc.Ops, "\n            "))
	}
	var item *workItem
	for _, it := range c.workItems() {
		if it.p != cc.Prefix {
			continue
		}
		match := true
		for di, d := range c.tr.dirNames {
			if k, ok := cc.DirPersisted[d]; ok && k != it.dirK[di] {
				match = false
			}
		}
		if match {
			item = it
			break
		}
	}
	if item == nil {
		eng.HarnessError("replay: no crash state with prefix %d and directory choice %v exists in this run (operation sequence changed)", cc.Prefix, cc.DirPersisted)
	}
	v := make([]int, len(item.pend))
	for i, po := range item.pend {
		k, ok := cc.Kept[fmt.Sprintf("%s#%d", c.tr.label(po.ino), po.k)]
		if !ok {
			k = po.radix - 1
		}
		if k >= po.radix {
			eng.HarnessError("replay: data operation %s#%d has only %d bytes", c.tr.label(po.ino), po.k, po.radix-1)
		}
		v[i] = k
	}
	// evaluate exactly this vector
	one := *item
	one.vectors = [][]int{v}
	one.total = 1
	local := map[string]*found{}
	var st blockStats
	c.evalRange(&one, 0, 1, local, &st)
	fmt.Printf("replay crash state: prefix %d, directory operations persisted %v, data kept %v\n", cc.Prefix, cc.DirPersisted, cc.Kept)
	fmt.Printf("replay observed at %s: %s\n", c.sc.Targets[0].Path, firstN(sampleObs(c, &one, v), 400))
	fmt.Printf("replay allowed old: %s\nreplay allowed new: %s\n", firstN(c.oldObs[0].String(), 400), firstN(c.newObs[0].String(), 400))
	var keys []string
	for k := range local {
		keys = append(keys, k)
	}
	sort.Strings(keys)
	for _, k := range keys {
		f := local[k]
		d := c.describe(cc.Tier, &one, f.v, f.tg, f.o, f.cls)
		fmt.Printf("replay verdict: VIOLATED %s observed %s\n", k, firstN(f.o, 400))
		r.Violation(k, "replayed crash state violates old-or-new: observed "+firstN(f.o, 200), d)
	}
	if len(keys) == 0 {
		fmt.Println("replay verdict: holds (observation is the complete old or the complete new content)")
	}
	r.Add("evaluations", 1)
}
