// C06 — the state file on disk is always a complete old or new checkpoint (atomic-write helper).
//
// E-crash (DESIGN.md 3.2, Appendix C). At run time this harness
//  1. builds a small NON-test program (prog/main.go) from /repo's working tree with the same overlay
//     (so osutil's unsafe-IO shortcut for test binaries is off and --mutants patches reach it),
//  2. runs every scenario of it under strace,
//  3. parses the trace strictly into abstract file-system operations (an unrecognised system call
//     touching the scenario directory is a harness error, exit 2),
//  4. enumerates every prefix of the operation sequence x every persistence outcome of the model
//     (namespace operations of a directory after its last fsync: any prefix of them persisted, in
//     order; data operations of an inode after its last fsync: any subset, every write possibly torn
//     to any byte prefix),
//  5. checks on every crash state that what is reachable at the target path is the complete old or
//     the complete new content, plus the ordering fact "fsync(temp file) precedes the rename".
package c06_test

import (
	"fmt"
	"path/filepath"
	"regexp"
	"strconv"
	"strings"
)

// ---------------------------------------------------------------------------------------------
// scenarios

type preFile struct {
	Path    string // relative to the scenario root
	Content string // file content, or link target when Link
	Link    bool
	Dir     bool
	From    string // take the content from the final state of that scenario's file of the same name
}

type target struct {
	Path string `json:"path"`
	Mode string `json:"mode"` // "content": follow symlinks, compare file content; "link": the entry itself
}

type scenario struct {
	Name    string
	Prog    string // scenario name understood by the program
	Args    []string
	Env     []string
	Pre     []preFile
	Targets []target
	// WantNew: expected observation at Targets[0] after the complete run ("" = only known to the
	// program, e.g. the marshalled state; then WantNewHas must be contained in it)
	WantNew    string
	WantNewHas string
	NoChange   bool // the operation must leave Targets[0] as it was (cancel)
}

const bystander = "bystander"
const bystanderContent = "BYSTANDER: an unrelated file in the same directory\n"

func distinctBytes(n int) string {
	const al = "ABCDEFGHIJKLMNOPQRSTUVWXYZabcdefghijklmnopqrstuvwxyz0123456789"
	b := make([]byte, n)
	for i := range b {
		b[i] = al[i%len(al)]
	}
	return string(b)
}

func repeatSizes(size, n int) string {
	s := make([]string, n)
	for i := range s {
		s[i] = strconv.Itoa(size)
	}
	return strings.Join(s, ",")
}

// scenarios returns the scenario table of a tier (pick(q, t) selects the quick or thorough bound).
func scenarios(pick func(q, t int) int) []scenario {
	chunks := pick(6, 8)    // write(2)s of the plain-reader scenarios
	chunkSize := pick(6, 7) // bytes per write
	pad := pick(96, 1500)   // bytes added to / removed from the state by the overwrite scenarios
	readerNew := distinctBytes(chunks * chunkSize)
	oldLong := strings.Repeat("old-content.", 9)
	statePad := strings.Repeat("p", pad)
	content := func(p string) []target { return []target{{p, "content"}} }
	return []scenario{
		{Name: "state-first", Prog: "state-first", Args: []string{"hello"},
			Targets: content("state.json"), WantNewHas: `"c06":"hello"`},
		{Name: "state-first-env-unsafe-io", Prog: "state-first", Args: []string{"hello"}, Env: []string{"SNAPD_UNSAFE_IO=1"},
			Targets: content("state.json"), WantNewHas: `"c06":"hello"`},
		{Name: "state-longer", Prog: "state-set", Args: []string{"pad", statePad},
			Pre:     []preFile{{Path: "state.json", From: "state-first"}},
			Targets: content("state.json"), WantNewHas: `"pad":"` + statePad + `"`},
		{Name: "state-shorter", Prog: "state-set", Args: []string{"pad", "-"},
			Pre:     []preFile{{Path: "state.json", From: "state-longer"}},
			Targets: content("state.json"), WantNewHas: `"c06":"hello"`},
		{Name: "reader-overwrite", Prog: "reader", Args: []string{"blob", readerNew, repeatSizes(chunkSize, chunks)},
			Pre:     []preFile{{Path: "blob", Content: oldLong}},
			Targets: content("blob"), WantNew: readerNew},
		{Name: "reader-new", Prog: "reader", Args: []string{"blob", readerNew, repeatSizes(chunkSize, chunks)},
			Targets: content("blob"), WantNew: readerNew},
		{Name: "file-chown", Prog: "file-chown", Args: []string{"owned", "new-owned-content", "1234", "4294967295"},
			Pre:     []preFile{{Path: "owned", Content: oldLong}},
			Targets: content("owned"), WantNew: "new-owned-content"},
		{Name: "file-mtime", Prog: "file-mtime", Args: []string{"stamped", "0123456789abcdefghij", "7,6"},
			Pre:     []preFile{{Path: "stamped", Content: "old"}},
			Targets: content("stamped"), WantNew: "0123456789abcdefghij"},
		{Name: "file-follow", Prog: "file-follow", Args: []string{"link", "written-through-the-link"},
			Pre:     []preFile{{Path: "real", Content: oldLong}, {Path: "link", Content: "real", Link: true}},
			Targets: []target{{"link", "content"}, {"real", "content"}, {"link", "link"}}, WantNew: "written-through-the-link"},
		{Name: "commit-as", Prog: "commit-as", Args: []string{"staging", "final", "committed-under-another-name"},
			Pre:     []preFile{{Path: "final", Content: oldLong}},
			Targets: []target{{"final", "content"}, {"staging", "content"}}, WantNew: "committed-under-another-name"},
		{Name: "cancel", Prog: "cancel", Args: []string{"keep", "abandoned-content"},
			Pre:     []preFile{{Path: "keep", Content: oldLong}},
			Targets: content("keep"), WantNew: oldLong, NoChange: true},
		{Name: "rename-replace", Prog: "rename", Args: []string{"src", "dst"},
			Pre:     []preFile{{Path: "src", Content: "content-of-src"}, {Path: "dst", Content: oldLong}},
			Targets: content("dst"), WantNew: "content-of-src"},
		{Name: "rename-new", Prog: "rename", Args: []string{"src", "dst"},
			Pre:     []preFile{{Path: "src", Content: "content-of-src"}},
			Targets: content("dst"), WantNew: "content-of-src"},
		{Name: "rename-across-dirs", Prog: "rename", Args: []string{"a/src", "b/dst"},
			Pre: []preFile{{Path: "a", Dir: true}, {Path: "b", Dir: true}, {Path: "a/src", Content: "content-of-src"},
				{Path: "b/dst", Content: oldLong}},
			Targets: content("b/dst"), WantNew: "content-of-src"},
		{Name: "symlink-new", Prog: "symlink", Args: []string{"rev-2", "current"},
			Pre:     []preFile{{Path: "rev-2", Content: "NEWREV"}},
			Targets: []target{{"current", "link"}, {"current", "content"}}, WantNew: "L:rev-2"},
		{Name: "symlink-replace", Prog: "symlink", Args: []string{"rev-2", "current"},
			Pre: []preFile{{Path: "rev-1", Content: "OLDREV"}, {Path: "rev-2", Content: "NEWREV"},
				{Path: "current", Content: "rev-1", Link: true}},
			Targets: []target{{"current", "link"}, {"current", "content"}}, WantNew: "L:rev-2"},
	}
}

// ---------------------------------------------------------------------------------------------
// abstract file system

type inode struct {
	id    int
	kind  byte   // 'f' file, 'l' symlink
	pre   bool   // existed (durably) before the traced operation
	base  []byte // content in the pre-state (files)
	link  string // symlink target
	label string // stable name for signatures: p:<path> for pre-existing, n<k> for k-th created
}

type setEnt struct {
	name string
	ino  int
}

// nsOp is one namespace operation as seen by ONE directory (a cross-directory rename yields two).
type nsOp struct {
	ev   int
	dels []string
	sets []setEnt
}

type dataOp struct {
	ev    int
	trunc bool
	off   int64 // write: offset; trunc: new size
	data  []byte
}

type event struct {
	Kind string // "ns", "data", "fsync", "fsyncdir"
	Desc string // normalised description (random temp names replaced by inode labels)
	Line int    // line in the strace log
	ino  int
	dir  string
}

type trace struct {
	root      string
	inodes    []*inode
	dirNames  []string // relative directory paths, "." is the root, sorted
	preDirs   map[string]map[string]int
	events    []event
	dirOps    map[string][]nsOp
	dataOps   map[int][]dataOp
	fsyncs    map[int][]int
	fsyncDirs map[string][]int
	sigMeta   []metaRec // metadata operations (ignored by the oracle; position = number of events before)
	syscalls  int       // relevant system calls parsed (all, incl. those without a model effect)
	// volatile state while parsing
	vol map[string]map[string]int
	fds map[int]*fdEnt
}

type fdEnt struct {
	ino    int // -1 for a directory
	dir    string
	off    int64
	append bool
	wr     bool
}

func applyData(buf []byte, op *dataOp, kept int) []byte {
	if op.trunc {
		if kept == 0 {
			return buf
		}
		n := int(op.off)
		if n <= len(buf) {
			return buf[:n]
		}
		for len(buf) < n {
			buf = append(buf, 0)
		}
		return buf
	}
	if kept == 0 {
		return buf
	}
	off := int(op.off)
	for len(buf) < off {
		buf = append(buf, 0)
	}
	end := off + kept
	if end > len(buf) {
		buf = append(buf, make([]byte, end-len(buf))...)
	}
	copy(buf[off:end], op.data[:kept])
	return buf
}

// ---------------------------------------------------------------------------------------------
// strace parsing (strict)

type parseError struct{ msg string }

func perr(format string, a ...interface{}) { panic(parseError{fmt.Sprintf(format, a...)}) }

var (
	pidRe     = regexp.MustCompile(`^(\d+)\s+(.*)$`)
	resumedRe = regexp.MustCompile(`^<\.\.\. (\w+) resumed>(.*)$`)
	callRe    = regexp.MustCompile(`^(\w+)\((.*)\)\s+= (-?\d+|0x[0-9a-f]+|\?)(<.*?>)?(?:\s+(E[A-Z0-9]+) \(.*?\))?(?:\s+\(.*\))?\s*$`)
	fdRe      = regexp.MustCompile(`^(\d+|AT_FDCWD)<(.*)>(\(deleted\))?$`)
)

const unfinished = "<unfinished ...>"

// mergeLines joins "<unfinished ...>" / "<... resumed>" pairs; the merged call takes the place of
// its start. Returns the merged lines (without pid) and their line numbers.
func mergeLines(log string) (lines []string, nums []int, leftovers []string) {
	pending := map[string]int{}
	for i, l := range strings.Split(log, "\n") {
		if l == "" {
			continue
		}
		m := pidRe.FindStringSubmatch(l)
		if m == nil {
			perr("line %d: no pid prefix: %q", i+1, l)
		}
		pid, rest := m[1], m[2]
		if rm := resumedRe.FindStringSubmatch(rest); rm != nil {
			idx, ok := pending[pid]
			if !ok {
				perr("line %d: resumed without unfinished: %q", i+1, l)
			}
			delete(pending, pid)
			lines[idx] += rm[2]
			continue
		}
		if strings.HasSuffix(rest, unfinished) {
			if _, ok := pending[pid]; ok {
				perr("line %d: two unfinished calls of pid %s", i+1, pid)
			}
			pending[pid] = len(lines)
			rest = strings.TrimSuffix(rest, unfinished)
		}
		lines = append(lines, rest)
		nums = append(nums, i+1)
	}
	for _, idx := range pending {
		leftovers = append(leftovers, lines[idx])
		lines[idx] = ""
	}
	return lines, nums, leftovers
}

// splitArgs splits a system call argument list at top-level commas.
func splitArgs(s string) []string {
	var res []string
	depth, start := 0, 0
	inq := false
	for i := 0; i < len(s); i++ {
		c := s[i]
		if inq {
			if c == '\\' {
				i++
			} else if c == '"' {
				inq = false
			}
			continue
		}
		switch c {
		case '"':
			inq = true
		case '(', '[', '{', '<':
			depth++
		case ')', ']', '}', '>':
			depth--
		case ',':
			if depth == 0 {
				res = append(res, strings.TrimSpace(s[start:i]))
				start = i + 1
			}
		}
	}
	if inq || depth != 0 {
		perr("unbalanced argument list %q", s)
	}
	if t := strings.TrimSpace(s[start:]); t != "" || len(res) > 0 {
		res = append(res, t)
	}
	return res
}

// unquote decodes a strace string literal (default quoting: C escapes and octal).
func unquote(tok string) []byte {
	if len(tok) < 2 || tok[0] != '"' || tok[len(tok)-1] != '"' {
		perr("not a complete string literal (truncated by strace?): %.80q", tok)
	}
	s := tok[1 : len(tok)-1]
	out := make([]byte, 0, len(s))
	for i := 0; i < len(s); i++ {
		c := s[i]
		if c != '\\' {
			out = append(out, c)
			continue
		}
		i++
		if i >= len(s) {
			perr("dangling backslash in %.80q", tok)
		}
		switch e := s[i]; e {
		case 'n':
			out = append(out, '\n')
		case 't':
			out = append(out, '\t')
		case 'r':
			out = append(out, '\r')
		case 'v':
			out = append(out, '\v')
		case 'f':
			out = append(out, '\f')
		case '"', '\\':
			out = append(out, e)
		case 'x':
			if i+3 > len(s) {
				perr("short hex escape in %.80q", tok)
			}
			v, err := strconv.ParseUint(s[i+1:i+3], 16, 8)
			if err != nil {
				perr("bad hex escape in %.80q", tok)
			}
			out = append(out, byte(v))
			i += 2
		default:
			if e < '0' || e > '7' {
				perr("unknown escape \\%c in %.80q", e, tok)
			}
			v, n := 0, 0
			for n < 3 && i < len(s) && s[i] >= '0' && s[i] <= '7' {
				v = v*8 + int(s[i]-'0')
				i++
				n++
			}
			i--
			out = append(out, byte(v))
		}
	}
	return out
}

func atoi(s string) int64 {
	n, err := strconv.ParseInt(s, 0, 64)
	if err != nil {
		perr("not a number: %q", s)
	}
	return n
}

func (t *trace) rel(abs string) string {
	abs = filepath.Clean(abs)
	if abs == t.root {
		return "."
	}
	if !strings.HasPrefix(abs, t.root+"/") {
		perr("path %q is outside the scenario directory", abs)
	}
	return abs[len(t.root)+1:]
}

// pathArg resolves (dirfd, "path") to a path relative to the scenario root.
func (t *trace) pathArg(dirfd, tok string) string {
	p := string(unquote(tok))
	if !filepath.IsAbs(p) {
		m := fdRe.FindStringSubmatch(dirfd)
		if m == nil {
			perr("relative path %q with unparsable dirfd %q", p, dirfd)
		}
		p = filepath.Join(m[2], p)
	}
	return t.rel(p)
}

func (t *trace) splitDir(rel string) (dir, name string) {
	if rel == "." {
		perr("operation on the scenario root itself")
	}
	dir, name = filepath.Dir(rel), filepath.Base(rel)
	if _, ok := t.vol[dir]; !ok {
		perr("parent %q of %q is not a directory of the model", dir, rel)
	}
	return dir, name
}

func (t *trace) fdArg(tok string) (int, *fdEnt) {
	m := fdRe.FindStringSubmatch(tok)
	if m == nil || m[1] == "AT_FDCWD" {
		perr("not a file descriptor argument: %q", tok)
	}
	n := int(atoi(m[1]))
	return n, t.fds[n]
}

func (t *trace) label(ino int) string { return t.inodes[ino].label }

// nameLabel replaces names of the form <x>.<12 random chars>~ (snapd temp files) by a stable text.
var tmpNameRe = regexp.MustCompile(`\.[A-Za-z0-9]{12}~`)

func normName(s string) string { return tmpNameRe.ReplaceAllString(s, ".<rnd>~") }

func (t *trace) addEvent(kind, desc string, line int, ino int, dir string) int {
	t.events = append(t.events, event{Kind: kind, Desc: desc, Line: line, ino: ino, dir: dir})
	return len(t.events) - 1
}

func (t *trace) newInode(kind byte, link string) int {
	n := 0
	for _, x := range t.inodes {
		if !x.pre {
			n++
		}
	}
	t.inodes = append(t.inodes, &inode{id: len(t.inodes), kind: kind, link: link, label: fmt.Sprintf("n%d", n+1)})
	return len(t.inodes) - 1
}

// volatile content of an inode: everything applied
func (t *trace) volContent(ino int) []byte {
	buf := append([]byte(nil), t.inodes[ino].base...)
	for i := range t.dataOps[ino] {
		op := &t.dataOps[ino][i]
		k := len(op.data)
		if op.trunc {
			k = 1
		}
		buf = applyData(buf, op, k)
	}
	return buf
}

func (t *trace) volLookup(rel string, follow bool) (int, bool) {
	for hops := 0; hops < 8; hops++ {
		dir, name := filepath.Dir(rel), filepath.Base(rel)
		d, ok := t.vol[dir]
		if !ok {
			return 0, false
		}
		ino, ok := d[name]
		if !ok {
			return 0, false
		}
		if t.inodes[ino].kind == 'l' && follow {
			l := t.inodes[ino].link
			if filepath.IsAbs(l) {
				rel = t.rel(l)
			} else {
				rel = filepath.Join(dir, l)
			}
			continue
		}
		return ino, true
	}
	perr("symlink loop at %q", rel)
	return 0, false
}

var okOpenFlags = map[string]bool{"O_RDONLY": true, "O_WRONLY": true, "O_RDWR": true, "O_CREAT": true, "O_EXCL": true,
	"O_TRUNC": true, "O_CLOEXEC": true, "O_APPEND": true, "O_LARGEFILE": true, "O_NONBLOCK": true, "O_DIRECTORY": true,
	"O_NOFOLLOW": true, "O_NOCTTY": true}

func flagSet(tok string, allowed map[string]bool) map[string]bool {
	res := map[string]bool{}
	for _, f := range strings.Split(tok, "|") {
		if !allowed[f] {
			perr("unsupported flag %q in %q", f, tok)
		}
		res[f] = true
	}
	return res
}

func (t *trace) doOpen(dirfd, pathTok, flagsTok, ret, retAnn string, errno string, line int) {
	rel := t.pathArg(dirfd, pathTok)
	fl := flagSet(flagsTok, okOpenFlags)
	if ret == "-1" {
		return
	}
	fd := int(atoi(ret))
	if _, isDir := t.vol[rel]; isDir {
		if fl["O_WRONLY"] || fl["O_RDWR"] || fl["O_CREAT"] || fl["O_TRUNC"] {
			perr("line %d: directory %q opened for writing", line, rel)
		}
		t.fds[fd] = &fdEnt{ino: -1, dir: rel}
		return
	}
	dir, name := t.splitDir(rel)
	ino, exists := t.volLookup(rel, !fl["O_NOFOLLOW"])
	if _, direct := t.vol[dir][name]; direct && !exists {
		perr("line %d: open through a dangling symlink %q is not modelled", line, rel)
	}
	wr := fl["O_WRONLY"] || fl["O_RDWR"]
	if exists {
		if fl["O_CREAT"] && fl["O_EXCL"] {
			perr("line %d: model/implementation divergence: O_EXCL open of %q succeeded but the model has the name", line, rel)
		}
		if t.inodes[ino].kind != 'f' {
			perr("line %d: open of non-file %q", line, rel)
		}
		if fl["O_TRUNC"] && wr {
			ev := t.addEvent("data", fmt.Sprintf("truncate(%s, 0) [open O_TRUNC %s]", t.label(ino), normName(rel)), line, ino, "")
			t.dataOps[ino] = append(t.dataOps[ino], dataOp{ev: ev, trunc: true, off: 0})
		}
	} else {
		if !fl["O_CREAT"] {
			perr("line %d: model/implementation divergence: open of %q succeeded but the model does not have it", line, rel)
		}
		ino = t.newInode('f', "")
		ev := t.addEvent("ns", fmt.Sprintf("create(%s, %s -> %s)", dir, normName(name), t.label(ino)), line, ino, dir)
		t.dirOps[dir] = append(t.dirOps[dir], nsOp{ev: ev, sets: []setEnt{{name, ino}}})
		t.vol[dir][name] = ino
	}
	t.fds[fd] = &fdEnt{ino: ino, append: fl["O_APPEND"], wr: wr}
}

func (t *trace) doRename(oldRel, newRel string, line int) {
	od, on := t.splitDir(oldRel)
	nd, nn := t.splitDir(newRel)
	if _, isDir := t.vol[oldRel]; isDir {
		perr("line %d: rename of a directory is not modelled", line)
	}
	ino, ok := t.vol[od][on]
	if !ok {
		perr("line %d: model/implementation divergence: rename source %q not in the model", line, oldRel)
	}
	if cur, ok := t.vol[nd][nn]; ok && cur == ino {
		return // rename onto another name of the same inode: no effect
	}
	repl := "-"
	if cur, ok := t.vol[nd][nn]; ok {
		repl = t.label(cur)
	}
	desc := fmt.Sprintf("rename(%s -> %s) [moves %s, replaces %s]", normName(oldRel), normName(newRel), t.label(ino), repl)
	ev := t.addEvent("ns", desc, line, ino, nd)
	if od == nd {
		t.dirOps[od] = append(t.dirOps[od], nsOp{ev: ev, dels: []string{on}, sets: []setEnt{{nn, ino}}})
	} else {
		t.dirOps[od] = append(t.dirOps[od], nsOp{ev: ev, dels: []string{on}})
		t.dirOps[nd] = append(t.dirOps[nd], nsOp{ev: ev, sets: []setEnt{{nn, ino}}})
	}
	delete(t.vol[od], on)
	t.vol[nd][nn] = ino
}

func (t *trace) meta(what string, ino int, line int) {
	// metadata only: ignored by the oracle; remembered when it comes after the inode's last fsync
	t.sigMeta = append(t.sigMeta, metaRec{what: what, ino: ino, pos: len(t.events)})
}

type metaRec struct {
	what string
	ino  int
	pos  int
}

// handle interprets one relevant system call. Unknown calls are a harness error.
func (t *trace) handle(name string, args []string, ret, retAnn, errno string, line int) {
	need := func(n int) {
		if len(args) < n {
			perr("line %d: %s with %d arguments", line, name, len(args))
		}
	}
	failed := ret == "-1"
	if ret == "?" {
		perr("line %d: %s did not return (interrupted?)", line, name)
	}
	fileFd := func(tok string) *fdEnt {
		n, e := t.fdArg(tok)
		if e == nil {
			perr("line %d: %s on unknown descriptor %d", line, name, n)
		}
		return e
	}
	switch name {
	case "execve", "epoll_ctl", "getdents64", "faccessat", "faccessat2", "access":
		// no effect on the file system
	case "fcntl":
		need(2)
		switch args[1] {
		case "F_GETFL", "F_GETFD", "F_SETFD":
		case "F_SETFL":
			need(3)
			flagSet(args[2], map[string]bool{"O_RDONLY": true, "O_WRONLY": true, "O_RDWR": true, "O_NONBLOCK": true, "O_LARGEFILE": true})
		default:
			perr("line %d: unsupported fcntl %s", line, args[1])
		}
	case "openat":
		need(3)
		t.doOpen(args[0], args[1], args[2], ret, retAnn, errno, line)
	case "open":
		need(2)
		t.doOpen("AT_FDCWD</>", args[0], args[1], ret, retAnn, errno, line)
	case "close":
		need(1)
		n, e := t.fdArg(args[0])
		if e == nil {
			perr("line %d: close of unknown descriptor %d", line, n)
		}
		if !failed {
			delete(t.fds, n)
		}
	case "read", "pread64":
		need(3)
		e := fileFd(args[0])
		if name == "read" && !failed {
			e.off += atoi(ret)
		}
	case "lseek":
		need(3)
		e := fileFd(args[0])
		if !failed {
			e.off = atoi(ret)
		}
	case "write", "pwrite64":
		need(3)
		e := fileFd(args[0])
		if failed {
			perr("line %d: failed write is not modelled", line)
		}
		if e.ino < 0 || !e.wr {
			perr("line %d: write on a descriptor not open for writing", line)
		}
		data := unquote(args[1])
		if int64(len(data)) != atoi(args[2]) {
			perr("line %d: write data has %d bytes, count says %s", line, len(data), args[2])
		}
		n := atoi(ret)
		if n > int64(len(data)) {
			perr("line %d: write returned more than requested", line)
		}
		data = data[:n]
		off := e.off
		if name == "pwrite64" {
			need(4)
			off = atoi(args[3])
		} else if e.append {
			off = int64(len(t.volContent(e.ino)))
		}
		ev := t.addEvent("data", fmt.Sprintf("write(%s, off=%d, len=%d)", t.label(e.ino), off, len(data)), line, e.ino, "")
		t.dataOps[e.ino] = append(t.dataOps[e.ino], dataOp{ev: ev, off: off, data: data})
		if name == "write" {
			e.off = off + n
		}
	case "ftruncate":
		need(2)
		e := fileFd(args[0])
		if failed || e.ino < 0 {
			perr("line %d: unsupported ftruncate", line)
		}
		n := atoi(args[1])
		ev := t.addEvent("data", fmt.Sprintf("truncate(%s, %d)", t.label(e.ino), n), line, e.ino, "")
		t.dataOps[e.ino] = append(t.dataOps[e.ino], dataOp{ev: ev, trunc: true, off: n})
	case "fsync", "fdatasync":
		need(1)
		e := fileFd(args[0])
		if failed {
			perr("line %d: failed %s", line, name)
		}
		if e.ino < 0 {
			ev := t.addEvent("fsyncdir", fmt.Sprintf("fsyncdir(%s)", e.dir), line, -1, e.dir)
			t.fsyncDirs[e.dir] = append(t.fsyncDirs[e.dir], ev)
		} else {
			ev := t.addEvent("fsync", fmt.Sprintf("%s(%s)", name, t.label(e.ino)), line, e.ino, "")
			t.fsyncs[e.ino] = append(t.fsyncs[e.ino], ev)
		}
	case "fstat":
		need(1)
		fileFd(args[0])
	case "newfstatat", "statx", "readlinkat":
		need(2)
		t.pathArg(args[0], args[1])
	case "stat", "lstat", "readlink":
		need(1)
		t.pathArg("AT_FDCWD</>", args[0])
	case "fchown", "fchmod":
		need(2)
		e := fileFd(args[0])
		if !failed && e.ino >= 0 {
			t.meta(name, e.ino, line)
		}
	case "fchownat", "fchmodat", "utimensat":
		need(2)
		if args[1] == "NULL" { // futimens
			e := fileFd(args[0])
			if !failed && e.ino >= 0 {
				t.meta(name, e.ino, line)
			}
			break
		}
		rel := t.pathArg(args[0], args[1])
		if !failed {
			if _, isDir := t.vol[rel]; isDir {
				break
			}
			nofollow := strings.Contains(args[len(args)-1], "AT_SYMLINK_NOFOLLOW")
			ino, ok := t.volLookup(rel, !nofollow)
			if !ok {
				perr("line %d: model/implementation divergence: %s on %q succeeded but the model does not have it", line, name, rel)
			}
			t.meta(name, ino, line)
		}
	case "chown", "lchown", "chmod":
		need(1)
		rel := t.pathArg("AT_FDCWD</>", args[0])
		if !failed {
			if ino, ok := t.volLookup(rel, name != "lchown"); ok {
				t.meta(name, ino, line)
			}
		}
	case "rename", "renameat", "renameat2":
		var o, n string
		if name == "rename" {
			need(2)
			o, n = t.pathArg("AT_FDCWD</>", args[0]), t.pathArg("AT_FDCWD</>", args[1])
		} else {
			need(4)
			o, n = t.pathArg(args[0], args[1]), t.pathArg(args[2], args[3])
			if name == "renameat2" {
				need(5)
				if args[4] != "0" {
					perr("line %d: renameat2 flags %s are not modelled", line, args[4])
				}
			}
		}
		if !failed {
			t.doRename(o, n, line)
		}
	case "unlink", "unlinkat":
		var rel string
		if name == "unlink" {
			need(1)
			rel = t.pathArg("AT_FDCWD</>", args[0])
		} else {
			need(3)
			rel = t.pathArg(args[0], args[1])
			if args[2] != "0" && !(failed && args[2] == "AT_REMOVEDIR") {
				perr("line %d: unlinkat flags %s are not modelled", line, args[2])
			}
		}
		if failed {
			if errno == "ENOENT" {
				if d, ok := t.vol[filepath.Dir(rel)]; ok {
					if _, has := d[filepath.Base(rel)]; has {
						perr("line %d: model/implementation divergence: unlink of %q failed with ENOENT but the model has it", line, rel)
					}
				}
			}
			break
		}
		dir, nm := t.splitDir(rel)
		ino, ok := t.vol[dir][nm]
		if !ok {
			perr("line %d: model/implementation divergence: unlink of %q succeeded but the model does not have it", line, rel)
		}
		ev := t.addEvent("ns", fmt.Sprintf("unlink(%s) [%s]", normName(rel), t.label(ino)), line, ino, dir)
		t.dirOps[dir] = append(t.dirOps[dir], nsOp{ev: ev, dels: []string{nm}})
		delete(t.vol[dir], nm)
	case "symlink", "symlinkat":
		var rel string
		if name == "symlink" {
			need(2)
			rel = t.pathArg("AT_FDCWD</>", args[1])
		} else {
			need(3)
			rel = t.pathArg(args[1], args[2])
		}
		if failed {
			break
		}
		dir, nm := t.splitDir(rel)
		if _, ok := t.vol[dir][nm]; ok {
			perr("line %d: model/implementation divergence: symlink %q created but the model has the name", line, rel)
		}
		ino := t.newInode('l', string(unquote(args[0])))
		ev := t.addEvent("ns", fmt.Sprintf("symlink(%s, %s -> %s=%q)", dir, normName(nm), t.label(ino), t.inodes[ino].link), line, ino, dir)
		t.dirOps[dir] = append(t.dirOps[dir], nsOp{ev: ev, sets: []setEnt{{nm, ino}}})
		t.vol[dir][nm] = ino
	default:
		perr("line %d: unrecognised system call %s touching the scenario directory", line, name)
	}
}
