// C34 — channel names normalize consistently and pinned tracks cannot be switched.
//
// Exhaustive enumeration of every channel string built from 1..K components of a covering
// alphabet joined by "/" (the empty component gives leading/trailing/double slashes), then
//   - single-string laws on every string (Parse/ParseVerbatim/Clean/String/Full),
//   - Resolve over all ordered pairs (current, new),
//   - ResolvePinned over all (pinned track candidate, new) pairs, every string being a candidate.
//
// Oracles: algebraic laws taken from the statement (parse∘print stable, Clean idempotent, canonical
// normal form, Full names track and risk, risk-only keeps the track, pinned ⇒ within track or
// refused) plus a small independent reference for the grammar.
package c34_test

import (
	"encoding/json"
	"fmt"
	"reflect"
	"strings"
	"sync"
	"sync/atomic"
	"testing"
	"time"

	"github.com/snapcore/snapd/asserts"
	"github.com/snapcore/snapd/asserts/assertstest"
	"github.com/snapcore/snapd/overlord/snapstate"
	"github.com/snapcore/snapd/overlord/snapstate/snapstatetest"
	"github.com/snapcore/snapd/snap"
	"github.com/snapcore/snapd/snap/channel"
	eng "github.com/snapcore/snapd/verifengine"
)

// covering alphabet of components:
//
//	""        empty component (leading/trailing/double slash)
//	latest    the default track
//	1.0, 1    two ordinary tracks, one a string prefix of the other
//	stable, candidate, beta, edge   the four risks (also usable in track/branch position)
//	fix       a word that is neither risk nor special (branch, or bogus risk)
var alphabet = []string{"", "latest", "1.0", "1", "stable", "candidate", "beta", "edge", "fix"}

var risks = map[string]bool{"stable": true, "candidate": true, "beta": true, "edge": true}

const testArch = "amd64"

func allChannels(maxComps int) []string {
	var res []string
	prev := []string{}
	for _, a := range alphabet {
		prev = append(prev, a)
	}
	res = append(res, prev...)
	for k := 2; k <= maxComps; k++ {
		var cur []string
		for _, p := range prev {
			for _, a := range alphabet {
				cur = append(cur, p+"/"+a)
			}
		}
		res = append(res, cur...)
		prev = cur
	}
	return res
}

// ---- reference grammar (verbatim: what the request literally names) ----
type refCh struct {
	track, risk, branch string
}

func refParseVerbatim(s string) (refCh, bool) {
	if s == "" {
		return refCh{}, false
	}
	p := strings.Split(s, "/")
	var c refCh
	switch len(p) {
	case 1:
		if risks[p[0]] {
			c.risk = p[0]
		} else {
			c.track = p[0]
		}
	case 2:
		if risks[p[0]] {
			c.risk, c.branch = p[0], p[1]
			if c.branch == "" {
				return refCh{}, false
			}
		} else {
			c.track, c.risk = p[0], p[1]
			if c.track == "" || !risks[c.risk] {
				return refCh{}, false
			}
		}
	case 3:
		c.track, c.risk, c.branch = p[0], p[1], p[2]
		if c.track == "" || !risks[c.risk] || c.branch == "" {
			return refCh{}, false
		}
	default:
		return refCh{}, false
	}
	return c, true
}

func (c refCh) clean() refCh {
	if c.track == "latest" {
		c.track = ""
	}
	if c.risk == "" {
		c.risk = "stable"
	}
	return c
}

func (c refCh) name() string {
	n := c.risk
	if c.track != "" {
		n = c.track + "/" + n
	}
	if c.branch != "" {
		n += "/" + c.branch
	}
	return n
}

func (c refCh) full() string {
	t := c.track
	if t == "" {
		t = "latest"
	}
	n := t + "/" + c.risk
	if c.branch != "" {
		n += "/" + c.branch
	}
	return n
}

// validPinned: a pinned track must name exactly a track: one non-empty component that is not a risk.
func validPinned(t string) bool {
	return t != "" && !strings.Contains(t, "/") && !risks[t]
}

type vCase struct {
	Kind string `json:"kind"` // single | resolve | pinned | wrapper
	A    string `json:"a"`    // single: the channel; resolve/wrapper: current; pinned: pinned track
	B    string `json:"b,omitempty"`
	// wrapper (snapstate.resolveChannel / RevisionOptions.resolveChannel) only:
	Via   string `json:"via,omitempty"`   // func | revopts
	Snap  string `json:"snap,omitempty"`  // kernel | gadget | other
	Model string `json:"model,omitempty"` // pinned | unpinned
	Rev   bool   `json:"rev,omitempty"`   // revopts: a revision is set
}

type verdict struct {
	key, msg string
	outcome  string // outcome class (vacuity statistics)
	nontriv  bool
}

func bad(kind, law string, c vCase, format string, a ...interface{}) verdict {
	return verdict{key: fmt.Sprintf("%s:%s:%s:%s", kind, law, shape(c.A), shape(c.B)), msg: fmt.Sprintf(format, a...)}
}

// shape abstracts a string to the component classes the alphabet stands for: _ empty, L latest, R a risk
// name, w any other word. Violations are identified by (kind, law, shapes); the smallest concrete input of
// each shape is kept as the replay case.
func shape(s string) string {
	p := strings.Split(s, "/")
	for i, x := range p {
		switch {
		case x == "":
			p[i] = "_"
		case x == "latest":
			p[i] = "L"
		case risks[x]:
			p[i] = "R"
		default:
			p[i] = "w"
		}
	}
	return strings.Join(p, "/")
}

// riskNamedTrack: three components whose first one (the track position) is a risk name. The documented
// grammar does not say whether a track may be called like a risk; ParseVerbatim accepts it while
// Resolve/ResolvePinned read the same string as <risk>/<branch...>. Acceptance of these strings is left to
// the implementation (either way is consistent with the statement); every law applies to what it accepts.
func riskNamedTrack(s string) bool {
	p := strings.Split(s, "/")
	return len(p) == 3 && risks[p[0]]
}

// implAccepts asks the implementation whether it accepts s (used only for riskNamedTrack strings).
func implAccepts(s string) bool {
	_, err := channel.ParseVerbatim(s, testArch)
	return err == nil
}

// guard turns a panic of the code under test into a violation.
func guard(c vCase, f func() verdict) (v verdict) {
	defer func() {
		if e := recover(); e != nil {
			v = bad(c.Kind, "panic", c, "panic: %v", e)
		}
	}()
	return f()
}

// ---------------------------------------------------------------- single-string laws
func checkSingle(s string) verdict {
	cs := vCase{Kind: "single", A: s}
	return guard(cs, func() verdict {
		ref, refOK := refParseVerbatim(s)
		vb, verr := channel.ParseVerbatim(s, testArch)
		ch, perr := channel.Parse(s, testArch)
		if (verr == nil) != (perr == nil) {
			return bad("single", "parse-vs-verbatim", cs, "ParseVerbatim(%q) err=%v but Parse err=%v", s, verr, perr)
		}
		if (perr == nil) != refOK && !(riskNamedTrack(s) && refOK) {
			return bad("single", "accept", cs, "Parse(%q) err=%v; reference grammar says valid=%v", s, perr, refOK)
		}
		// the toplevel Full: error, "" or a string of 2..3 non-empty components; idempotent
		full, ferr := channel.Full(s)
		if ferr == nil {
			if full == "" {
				if strings.Trim(s, "/") != "" {
					return bad("single", "full-empty", cs, "Full(%q) is empty although the input has components", s)
				}
			} else {
				fc := strings.Split(full, "/")
				if len(fc) < 2 || len(fc) > 3 {
					return bad("single", "full-shape", cs, "Full(%q)=%q does not name track and risk (want 2 or 3 components)", s, full)
				}
				for _, x := range fc {
					if x == "" {
						return bad("single", "full-shape", cs, "Full(%q)=%q has an empty component", s, full)
					}
				}
				full2, err2 := channel.Full(full)
				if err2 != nil || full2 != full {
					return bad("single", "full-idempotent", cs, "Full(%q)=%q but Full of that = %q, %v", s, full, full2, err2)
				}
			}
		}
		if perr != nil {
			if !reflect.DeepEqual(ch, channel.Channel{}) || !reflect.DeepEqual(vb, channel.Channel{}) {
				return bad("single", "reject-zero", cs, "rejected input %q returned non-zero channel %+v / %+v", s, ch, vb)
			}
			return verdict{outcome: "rejected"}
		}
		// verbatim keeps what was literally said
		if vb.Track != ref.track || vb.Risk != ref.risk || vb.Branch != ref.branch || vb.Architecture != testArch {
			return bad("single", "verbatim-fields", cs, "ParseVerbatim(%q)=%+v; reference %+v", s, vb, ref)
		}
		// Parse = Clean ∘ ParseVerbatim; Clean idempotent
		cl := vb.Clean()
		if !reflect.DeepEqual(cl, ch) {
			return bad("single", "parse-is-clean", cs, "Parse(%q)=%+v but ParseVerbatim.Clean()=%+v", s, ch, cl)
		}
		if cc := ch.Clean(); !reflect.DeepEqual(cc, ch) {
			return bad("single", "clean-idempotent", cs, "Clean(Clean(%q))=%+v differs from Clean=%+v", s, cc, ch)
		}
		// normalized fields agree with the reference normal form; redundant "latest" gone; risk always set
		rc := ref.clean()
		if ch.Track != rc.track || ch.Risk != rc.risk || ch.Branch != rc.branch || ch.Name != rc.name() || ch.Architecture != testArch {
			return bad("single", "normal-form", cs, "Parse(%q)=%+v; reference normal form track=%q risk=%q branch=%q name=%q", s, ch, rc.track, rc.risk, rc.branch, rc.name())
		}
		if ch.Track == "latest" || !risks[ch.Risk] {
			return bad("single", "normal-form", cs, "Parse(%q)=%+v keeps a redundant latest or has no valid risk", s, ch)
		}
		// parse ∘ print is stable
		printed := ch.String()
		ch2, err := channel.Parse(printed, testArch)
		if err != nil || !reflect.DeepEqual(ch2, ch) {
			return bad("single", "parse-print-stable", cs, "Parse(%q) prints as %q which parses to %+v, %v (want %+v)", s, printed, ch2, err, ch)
		}
		if ch2.String() != printed {
			return bad("single", "parse-print-stable", cs, "print(parse(print)) %q != %q", ch2.String(), printed)
		}
		// the full form always names track and risk (and the branch if any), for the parsed and the verbatim channel
		mfull := ch.Full()
		fc := strings.Split(mfull, "/")
		wantTrack := ch.Track
		if wantTrack == "" {
			wantTrack = "latest"
		}
		okShape := (len(fc) == 2 && ch.Branch == "") || (len(fc) == 3 && ch.Branch != "" && fc[2] == ch.Branch)
		if !okShape || fc[0] != wantTrack || fc[1] != ch.Risk || mfull != rc.full() {
			return bad("single", "full-names-track-risk", cs, "Parse(%q).Full()=%q; want %q", s, mfull, rc.full())
		}
		if ferr != nil || full != mfull {
			return bad("single", "full-func-vs-method", cs, "Full(%q)=%q,%v but Parse(..).Full()=%q", s, full, ferr, mfull)
		}
		// the full form denotes the same channel, and printing it gives the same normal form
		ch3, err := channel.Parse(mfull, testArch)
		if err != nil || !reflect.DeepEqual(ch3, ch) {
			return bad("single", "full-same-channel", cs, "Full form %q of %q parses to %+v, %v (want %+v)", mfull, s, ch3, err, ch)
		}
		return verdict{outcome: "normal:" + ch.Name, nontriv: true}
	})
}

// ---------------------------------------------------------------- Resolve
func checkResolve(cur, nw string) verdict {
	return checkResolveF("resolve", vCase{Kind: "resolve", A: cur, B: nw}, channel.Resolve, cur, nw)
}

// checkResolveF applies the laws of an unpinned resolution to f (channel.Resolve itself, or a snapstate wrapper).
func checkResolveF(kind string, cs vCase, f func(cur, nw string) (string, error), cur, nw string) verdict {
	bad := func(_ string, law string, c vCase, format string, a ...interface{}) verdict { return bad(kind, law, c, format, a...) }
	return guard(cs, func() verdict {
		res, err := f(cur, nw)
		if nw == "" {
			if err != nil || res != cur {
				return bad("resolve", "empty-new", cs, "Resolve(%q,\"\")=%q,%v; want the current channel", cur, res, err)
			}
			return verdict{outcome: "keep-current"}
		}
		if cur == "" {
			if err != nil || res != nw {
				return bad("resolve", "empty-current", cs, "Resolve(\"\",%q)=%q,%v; want the new channel", nw, res, err)
			}
			return verdict{outcome: "take-new"}
		}
		rcur, curOK := refParseVerbatim(cur)
		rnew, newOK := refParseVerbatim(nw)
		if curOK && riskNamedTrack(cur) {
			curOK = implAccepts(cur)
		}
		if newOK && riskNamedTrack(nw) {
			newOK = implAccepts(nw)
		}
		if !curOK {
			if err == nil {
				return bad("resolve", "bad-current", cs, "Resolve(%q,%q)=%q without error although the current channel is not parseable", cur, nw, res)
			}
			return verdict{outcome: "error-current"}
		}
		if err != nil {
			if riskNamedTrack(cur) && newOK && rnew.track == "" {
				// track <risk name> + risk-only request has no spelling (<risk>/<risk> reads as risk/branch): refusing is fine
				return verdict{outcome: "refused-inexpressible", nontriv: true}
			}
			return bad("resolve", "unexpected-error", cs, "Resolve(%q,%q) error %v for a parseable current channel", cur, nw, err)
		}
		if !newOK {
			// garbage request: nothing promised beyond "no panic, no error"
			return verdict{outcome: "garbage-new"}
		}
		if riskNamedTrack(nw) {
			// request with an explicit track that is called like a risk: Resolve may take it as is, or read it
			// as risk/branch and put the current track in front; the statement promises nothing here
			if res != nw && !(rcur.track != "" && res == rcur.track+"/"+nw) {
				return bad("resolve", "risk-named-track-request", cs, "Resolve(%q,%q)=%q; want the request itself or the current track prefixed", cur, nw, res)
			}
			return verdict{outcome: "risk-named-track-request"}
		}
		pcur, e1 := channel.Parse(cur, testArch)
		pnew, e2 := channel.Parse(nw, testArch)
		pres, e3 := channel.Parse(res, testArch)
		if e1 != nil || e2 != nil {
			return bad("resolve", "accept", cs, "reference accepts %q and %q but Parse says %v / %v", cur, nw, e1, e2)
		}
		if e3 != nil {
			return bad("resolve", "result-unparseable", cs, "Resolve(%q,%q)=%q which does not parse: %v", cur, nw, res, e3)
		}
		if rnew.track == "" {
			// risk-only or risk/branch request keeps the current track
			if pres.Track != pcur.Track || pres.Risk != pnew.Risk || pres.Branch != pnew.Branch {
				return bad("resolve", "risk-only-keeps-track", cs, "Resolve(%q,%q)=%q: track %q risk %q branch %q; want track %q (current) risk %q branch %q (request)",
					cur, nw, res, pres.Track, pres.Risk, pres.Branch, pcur.Track, pnew.Risk, pnew.Branch)
			}
			want := nw
			if rcur.track != "" {
				want = rcur.track + "/" + nw
			}
			if res != want {
				return bad("resolve", "risk-only-keeps-track", cs, "Resolve(%q,%q)=%q; want %q", cur, nw, res, want)
			}
			if rcur.track != "" {
				return verdict{outcome: "inherit-track", nontriv: true}
			}
			return verdict{outcome: "risk-only-no-track", nontriv: true}
		}
		// explicit track in the request: taken as is
		if res != nw || !reflect.DeepEqual(pres, pnew) {
			return bad("resolve", "explicit-track", cs, "Resolve(%q,%q)=%q; want the request itself", cur, nw, res)
		}
		return verdict{outcome: "explicit-track"}
	})
}

// ---------------------------------------------------------------- ResolvePinned
func checkPinned(track, nw string) verdict {
	return checkPinnedF("pinned", vCase{Kind: "pinned", A: track, B: nw}, channel.ResolvePinned,
		func(err error) bool { return err == channel.ErrPinnedTrackSwitch }, track, nw)
}

// checkPinnedF applies the laws of a pinned resolution to f (channel.ResolvePinned itself, or a snapstate
// wrapper whose device model pins `track`); isSwitch recognises the "cannot switch track" refusal.
func checkPinnedF(kind string, cs vCase, f func(track, nw string) (string, error), isSwitch func(error) bool, track, nw string) verdict {
	bad := func(_ string, law string, c vCase, format string, a ...interface{}) verdict { return bad(kind, law, c, format, a...) }
	return guard(cs, func() verdict {
		res, err := f(track, nw)
		if track == "" {
			if err != nil || res != nw {
				return bad("pinned", "no-pin", cs, "ResolvePinned(\"\",%q)=%q,%v; want the request unchanged", nw, res, err)
			}
			return verdict{outcome: "no-pin"}
		}
		// the statement: resolved within the pinned track, or refused
		if err == nil && res != track && !strings.HasPrefix(res, track+"/") {
			return bad("pinned", "within-track-or-refused", cs, "ResolvePinned(%q,%q)=%q leaves the pinned track", track, nw, res)
		}
		if err != nil && res != "" {
			return bad("pinned", "error-with-result", cs, "ResolvePinned(%q,%q) returned %q together with error %v", track, nw, res, err)
		}
		if !validPinned(track) {
			if err == nil || isSwitch(err) {
				return bad("pinned", "invalid-pin", cs, "ResolvePinned(%q,%q)=%q,%v; want an invalid-pinned-track error", track, nw, res, err)
			}
			return verdict{outcome: "invalid-pin"}
		}
		if nw == "" {
			if err != nil || res != track {
				return bad("pinned", "empty-new", cs, "ResolvePinned(%q,\"\")=%q,%v; want the track", track, res, err)
			}
			return verdict{outcome: "track-itself"}
		}
		rnew, newOK := refParseVerbatim(nw)
		if newOK && riskNamedTrack(nw) {
			newOK = implAccepts(nw)
		}
		if !newOK {
			// garbage request: only the statement-level law above applies
			if err != nil {
				return verdict{outcome: "garbage-refused", nontriv: true}
			}
			return verdict{outcome: "garbage-within-track", nontriv: true}
		}
		if riskNamedTrack(nw) {
			// explicit track called like a risk: refused, or read as risk/branch inside the pinned track
			if !(isSwitch(err) || (err == nil && res == track+"/"+nw)) {
				return bad("pinned", "risk-named-track-request", cs, "ResolvePinned(%q,%q)=%q,%v; want ErrPinnedTrackSwitch or the pinned track prefixed", track, nw, res, err)
			}
			return verdict{outcome: "risk-named-track-request", nontriv: true}
		}
		switch {
		case rnew.track == "":
			want := track + "/" + nw
			if err != nil || res != want {
				return bad("pinned", "risk-only-in-track", cs, "ResolvePinned(%q,%q)=%q,%v; want %q", track, nw, res, err, want)
			}
		case rnew.track == track:
			if err != nil || res != nw {
				return bad("pinned", "same-track", cs, "ResolvePinned(%q,%q)=%q,%v; want the request itself", track, nw, res, err)
			}
		default:
			if !isSwitch(err) {
				return bad("pinned", "other-track-refused", cs, "ResolvePinned(%q,%q)=%q,%v; want ErrPinnedTrackSwitch", track, nw, res, err)
			}
			return verdict{outcome: "refused", nontriv: true}
		}
		// an accepted valid request denotes a channel of the pinned track
		pres, perr := channel.Parse(res, testArch)
		ptrack, _ := channel.Parse(track, testArch)
		pnew, _ := channel.Parse(nw, testArch)
		if perr != nil || pres.Track != ptrack.Track || pres.Risk != pnew.Risk || pres.Branch != pnew.Branch {
			return bad("pinned", "result-channel", cs, "ResolvePinned(%q,%q)=%q parses to %+v, %v; want track %q risk %q branch %q", track, nw, res, pres, perr, ptrack.Track, pnew.Risk, pnew.Branch)
		}
		if rnew.track == "" {
			return verdict{outcome: "risk-only-in-track", nontriv: true}
		}
		return verdict{outcome: "same-track", nontriv: true}
	})
}

// ---------------------------------------------------------------- snapstate wrappers
//
// resolveChannel(snap, old, new, deviceCtx) and (*RevisionOptions).resolveChannel are the only way an
// install/refresh/switch request reaches channel.Resolve/ResolvePinned. They are driven with a device model
// that pins the kernel to track "1.0" and the gadget to track "1" (two tracks of the alphabet, one a string
// prefix of the other) and with a model that pins nothing.

const pinnedKernelTrack, pinnedGadgetTrack = "1.0", "1"

func fakeModel(kernel, gadget string) *asserts.Model {
	return assertstest.FakeAssertion(map[string]interface{}{
		"type":         "model",
		"authority-id": "brand",
		"series":       "16",
		"brand-id":     "brand",
		"model":        "baz-3000",
		"architecture": "armhf",
		"gadget":       gadget,
		"kernel":       kernel,
		"timestamp":    "2018-01-01T08:00:00+00:00",
	}).(*asserts.Model)
}

var deviceCtxs = map[string]snapstate.DeviceContext{
	"unpinned": &snapstatetest.TrivialDeviceContext{DeviceModel: fakeModel("kernel", "brand-gadget")},
	"pinned":   &snapstatetest.TrivialDeviceContext{DeviceModel: fakeModel("kernel="+pinnedKernelTrack, "brand-gadget="+pinnedGadgetTrack)},
}

var snapNames = map[string]string{"kernel": "kernel", "gadget": "brand-gadget", "other": "some-snap"}

func checkWrapper(cs vCase) verdict {
	kind := fmt.Sprintf("wrapper-%s-%s-%s", cs.Via, cs.Snap, cs.Model)
	if cs.Rev {
		kind += "-rev"
	}
	ctx, snapName := deviceCtxs[cs.Model], snapNames[cs.Snap]
	if ctx == nil || snapName == "" || (cs.Via != "func" && cs.Via != "revopts") {
		eng.HarnessError("bad wrapper case %+v", cs)
	}
	var mutated string
	call := func(old, nw string) (string, error) {
		if cs.Via == "func" {
			return snapstate.VerifResolveChannel(snapName, old, nw, ctx)
		}
		ro := &snapstate.RevisionOptions{Channel: nw}
		if cs.Rev {
			ro.Revision = snap.R(11)
		}
		if err := snapstate.VerifRevOptsResolveChannel(ro, snapName, old, ctx); err != nil {
			if ro.Channel != nw {
				mutated = ro.Channel
			}
			return "", err
		}
		return ro.Channel, nil
	}
	old, nw := cs.A, cs.B
	track := ""
	if cs.Model == "pinned" {
		switch cs.Snap {
		case "kernel":
			track = pinnedKernelTrack
		case "gadget":
			track = pinnedGadgetTrack
		}
	}
	if nw == "" {
		// no channel requested: nothing to resolve. By revision the channel is left alone, otherwise the
		// current/fallback channel is kept.
		return guard(cs, func() verdict {
			res, err := call(old, nw)
			want := old
			if cs.Via == "revopts" && cs.Rev {
				want = ""
			}
			if err != nil || res != want {
				return bad(kind, "no-request", cs, "old %q, no requested channel: got %q,%v; want %q", old, res, err, want)
			}
			return verdict{outcome: "no-request"}
		})
	}
	var v verdict
	if track != "" {
		// a channel was requested for a snap whose track is pinned by the model — with or without a revision
		csKey := cs
		csKey.A = track // the current channel plays no role under a pin: keep it out of the violation key
		v = checkPinnedF(kind, csKey, func(_, n string) (string, error) { return call(old, n) },
			func(err error) bool { return err != nil && strings.Contains(err.Error(), "cannot switch from") }, track, nw)
	} else {
		v = checkResolveF(kind, cs, call, old, nw)
	}
	if v.key == "" && mutated != "" {
		return bad(kind, "error-mutates-options", cs, "old %q new %q: the call failed but changed RevisionOptions.Channel to %q", old, nw, mutated)
	}
	if v.key != "" {
		what := "snapstate.resolveChannel"
		if cs.Via == "revopts" {
			what = fmt.Sprintf("(&RevisionOptions{Channel:%q, revision set:%v}).resolveChannel", nw, cs.Rev)
		}
		v.msg = fmt.Sprintf("%s for the %s snap, current channel %q, requested %q, model pins track %q: %s", what, cs.Snap, old, nw, track, v.msg)
	}
	return v
}

// collector keeps, per violation key, the smallest failing input (shortest, then lexicographic) so that the
// reported replay case does not depend on goroutine scheduling, and counts the failing inputs per key.
type collector struct {
	mu    sync.Mutex
	best  map[string]vCase
	msg   map[string]string
	count map[string]int
}

func newCollector() *collector {
	return &collector{best: map[string]vCase{}, msg: map[string]string{}, count: map[string]int{}}
}

func caseLess(a, b vCase) bool {
	la, lb := len(a.A)+len(a.B), len(b.A)+len(b.B)
	if la != lb {
		return la < lb
	}
	if a.A != b.A {
		return a.A < b.A
	}
	return a.B < b.B
}

func (c *collector) add(key, msg string, cs vCase) {
	c.mu.Lock()
	defer c.mu.Unlock()
	c.count[key]++
	if old, ok := c.best[key]; !ok || caseLess(cs, old) {
		c.best[key] = cs
		c.msg[key] = msg
	}
}

func (c *collector) flush(r *eng.Run) {
	for k, cs := range c.best {
		r.Violation(k, fmt.Sprintf("%s (%d failing inputs of this shape)", c.msg[k], c.count[k]), cs)
	}
	if len(c.count) > 0 {
		r.Info("failing_inputs_per_key", c.count)
	}
}

func runCase(c vCase) verdict {
	switch c.Kind {
	case "single":
		return checkSingle(c.A)
	case "resolve":
		return checkResolve(c.A, c.B)
	case "pinned":
		return checkPinned(c.A, c.B)
	case "wrapper":
		return checkWrapper(c)
	}
	eng.HarnessError("unknown case kind %q", c.Kind)
	return verdict{}
}

func TestC34(t *testing.T) {
	r := eng.Start("C34", "exploration", 90*time.Second, 10*time.Minute)
	r.Assume("reference grammar (refParseVerbatim/clean/name/full, ~60 lines) is a second transcription of the documented channel syntax [<track>/]<risk>[/<branch>] | <track>; the algebraic laws do not depend on it",
		"component alphabet {\"\",latest,1.0,1,stable,candidate,beta,edge,fix} covers: empty component, default track, two tracks where one is a string prefix of the other, all four risks (also in track and branch position), one non-risk word",
		"snapstate.resolveChannel and (*RevisionOptions).resolveChannel are reached through an overlay-mounted export file (build tag verif); the device context is snapstatetest.TrivialDeviceContext over a fake model assertion pinning kernel=1.0 and gadget=1, or nothing")

	if rc := r.ReplayCase(); rc != nil {
		var c vCase
		if err := json.Unmarshal(rc, &c); err != nil {
			eng.HarnessError("bad replay case: %v", err)
		}
		v := runCase(c)
		fmt.Printf("replay %+v: outcome=%q key=%q %s\n", c, v.outcome, v.key, v.msg)
		if v.key != "" {
			r.Violation(v.key, v.msg, c)
		}
		r.Finish("replay")
	}

	col := newCollector()
	singleComps := r.Pick(4, 5)
	pairComps := r.Pick(3, 4)

	// 1. single-string laws
	singles := allChannels(singleComps)
	var nSingle, ntSingle int64
	eng.ParallelFor(len(singles), func(i int) {
		v := checkSingle(singles[i])
		atomic.AddInt64(&nSingle, 1)
		if v.key != "" {
			col.add(v.key, v.msg, vCase{Kind: "single", A: singles[i]})
			return
		}
		if v.nontriv {
			atomic.AddInt64(&ntSingle, 1)
			r.Distinct("normal_form", v.outcome)
		}
	})

	// 1b. the normal form is canonical: strings with the same full form parse to the same channel
	byFull := map[string]channel.Channel{}
	byFullSrc := map[string]string{}
	var canonChecked int64
	for _, s := range singles {
		ch, err := channel.Parse(s, testArch)
		if err != nil {
			continue
		}
		f, ferr := channel.Full(s)
		if ferr != nil {
			continue // reported by checkSingle
		}
		canonChecked++
		if prev, ok := byFull[f]; ok {
			if !reflect.DeepEqual(prev, ch) {
				col.add(fmt.Sprintf("single:canonical:%s:%s", shape(byFullSrc[f]), shape(s)),
					fmt.Sprintf("%q and %q have the same full form %q but parse to %+v and %+v", byFullSrc[f], s, f, prev, ch), vCase{Kind: "single", A: s})
			}
		} else {
			byFull[f] = ch
			byFullSrc[f] = s
		}
	}
	r.Add("canonical_form_checks", canonChecked)
	r.Info("distinct_full_forms", len(byFull))

	// 2. Resolve and ResolvePinned over all ordered pairs
	strs := allChannels(pairComps)
	var nRes, ntRes, nPin, ntPin int64
	var outc [2]map[string]int64
	outc[0], outc[1] = map[string]int64{}, map[string]int64{}
	type local struct{ res, pin map[string]int64 }
	locals := make([]local, len(strs))
	eng.ParallelFor(len(strs), func(i int) {
		if r.TimeUp() {
			r.Cap("time", "pairs: some rows of the (current,new) matrix were skipped")
			return
		}
		a := strs[i]
		lr, lp := map[string]int64{}, map[string]int64{}
		var nr, np int64
		for _, b := range strs {
			v := checkResolve(a, b)
			if v.key != "" {
				col.add(v.key, v.msg, vCase{Kind: "resolve", A: a, B: b})
			} else {
				lr[v.outcome]++
				if v.nontriv {
					nr++
				}
			}
			v = checkPinned(a, b)
			if v.key != "" {
				col.add(v.key, v.msg, vCase{Kind: "pinned", A: a, B: b})
			} else {
				lp[v.outcome]++
				if v.nontriv {
					np++
				}
			}
		}
		locals[i] = local{lr, lp}
		atomic.AddInt64(&nRes, int64(len(strs)))
		atomic.AddInt64(&nPin, int64(len(strs)))
		atomic.AddInt64(&ntRes, nr)
		atomic.AddInt64(&ntPin, np)
	})
	for _, l := range locals {
		for k, n := range l.res {
			outc[0][k] += n
		}
		for k, n := range l.pin {
			outc[1][k] += n
		}
	}
	// 3. the snapstate wrappers: resolveChannel and (*RevisionOptions).resolveChannel
	type wcfg struct {
		via, snap, model string
		rev              bool
	}
	var cfgs []wcfg
	for _, model := range []string{"unpinned", "pinned"} {
		for _, sn := range []string{"kernel", "gadget", "other"} {
			cfgs = append(cfgs, wcfg{"func", sn, model, false}, wcfg{"revopts", sn, model, false}, wcfg{"revopts", sn, model, true})
		}
	}
	var wOld []string
	if r.Quick() {
		// current channels: everything up to 2 components plus every parseable 3-component channel
		for _, s := range strs {
			if strings.Count(s, "/") < 2 || implAccepts(s) {
				wOld = append(wOld, s)
			}
		}
	} else {
		wOld = strs[:0:0]
		wOld = append(wOld, allChannels(3)...)
	}
	wNew := allChannels(r.Pick(3, 4))
	var nWrap, ntWrap, nWrapPinnedRev int64
	wlocals := make([]map[string]int64, len(wNew))
	eng.ParallelFor(len(wNew), func(i int) {
		if r.TimeUp() {
			r.Cap("time", "wrappers: some requested channels were skipped")
			return
		}
		nw := wNew[i]
		lo := map[string]int64{}
		var n, nt, npr int64
		for _, old := range wOld {
			for _, c := range cfgs {
				cs := vCase{Kind: "wrapper", A: old, B: nw, Via: c.via, Snap: c.snap, Model: c.model, Rev: c.rev}
				v := checkWrapper(cs)
				n++
				if v.key != "" {
					col.add(v.key, v.msg, cs)
					continue
				}
				lo[c.model+"/"+c.snap+":"+v.outcome]++
				if v.nontriv {
					nt++
					if c.rev && c.model == "pinned" && c.snap != "other" {
						npr++
					}
				}
			}
		}
		wlocals[i] = lo
		atomic.AddInt64(&nWrap, n)
		atomic.AddInt64(&ntWrap, nt)
		atomic.AddInt64(&nWrapPinnedRev, npr)
	})
	wout := map[string]int64{}
	for _, l := range wlocals {
		for k, n := range l {
			wout[k] += n
		}
	}
	for k := range wout {
		r.Distinct("wrapper_outcome", k)
	}
	r.Info("wrapper_outcomes", wout)
	r.Add("wrapper_evaluations", nWrap)
	r.Add("wrapper_nontrivial", ntWrap)
	r.Add("wrapper_pinned_with_revision_and_channel", nWrapPinnedRev)

	for k := range outc[0] {
		r.Distinct("resolve_outcome", k)
	}
	for k := range outc[1] {
		r.Distinct("pinned_outcome", k)
	}
	r.Info("resolve_outcomes", outc[0])
	r.Info("pinned_outcomes", outc[1])

	col.flush(r)
	r.Add("single_evaluations", nSingle)
	r.Add("single_accepted", ntSingle)
	r.Add("resolve_evaluations", nRes)
	r.Add("resolve_risk_only_requests", ntRes)
	r.Add("pinned_evaluations", nPin)
	r.Add("pinned_valid_pin_nonempty_request", ntPin)
	r.Add("evaluations", nSingle+nRes+nPin+nWrap)
	r.Add("distinct_nontrivial", ntSingle+ntRes+ntPin+ntWrap)
	r.Info("bounds", map[string]int{"alphabet": len(alphabet), "single_max_components": singleComps, "pair_max_components": pairComps,
		"single_strings": len(singles), "pair_strings": len(strs),
		"wrapper_current_channels": len(wOld), "wrapper_requested_channels": len(wNew), "wrapper_configurations": len(cfgs)})
	r.Sample(vCase{Kind: "wrapper", A: "1.0/stable", B: "edge", Via: "revopts", Snap: "kernel", Model: "pinned", Rev: true})
	r.Sample(vCase{Kind: "single", A: "latest/stable"})
	r.Sample(vCase{Kind: "single", A: singles[len(singles)/2]})
	r.Sample(vCase{Kind: "resolve", A: "1.0/stable", B: "beta/fix"})
	r.Sample(vCase{Kind: "pinned", A: "1", B: "1.0/stable"})
	r.Sample(vCase{Kind: "pinned", A: strs[len(strs)/3], B: strs[len(strs)/2]})
	r.Finish("every string of 1..K alphabet components joined by '/' (single laws, K=single_max_components); every ordered pair of such strings with K=pair_max_components as (current,new) for Resolve and as (pinned track,new) for ResolvePinned. distinct_nontrivial = strings accepted by Parse (all normalization/full-form laws apply) + Resolve pairs with parseable current and a valid risk-only or risk/branch request + ResolvePinned pairs with a valid pinned track and a non-empty request (in-track, same-track, refused or garbage) + the same two rules counted on the snapstate wrappers, i.e. (current, requested) × {resolveChannel, RevisionOptions.resolveChannel without/with revision} × snap {kernel, gadget, other} × model {pinned, unpinned}")
}
