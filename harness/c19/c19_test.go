// C19 — stored assertions only move forward in revision.
//
// Bounded-sequence exploration of the real asserts.Database over both backstores. For each scenario (a small
// pool of pre-signed, deliberately colliding assertions) EVERY sequence of Add operations up to a depth bound
// is replayed on three fresh databases — memory backstore, filesystem backstore, and the same filesystem
// directory reopened — and after the sequence a fixed battery of queries (Find, FindMaxFormat, FindPredefined,
// FindTrusted, FindMany, FindManyPredefined, FindSequence) is run on all three. Every Add result and every
// query result is compared with a reference model (identity -> format -> last successfully added revision,
// behind immutable trusted and predefined layers).
package c19_test

import (
	"encoding/json"
	"errors"
	"fmt"
	"os"
	"path/filepath"
	"sort"
	"strconv"
	"strings"
	"sync/atomic"
	"testing"
	"time"

	"github.com/snapcore/snapd/asserts"
	"github.com/snapcore/snapd/asserts/assertstest"
	eng "github.com/snapcore/snapd/verifengine"
)

// ---------------------------------------------------------------- entries and reference model

type entry struct {
	Label    string
	A        asserts.Assertion
	typ      *asserts.AssertionType
	uniq     string // type name + primary key (defaults filled in)
	pk       []string
	rev, fmt int
	seq      int      // sequence number for sequence-forming types
	requires []string // uniq of assertions the cross-consistency check of this one needs
}

func mkEntry(label string, a asserts.Assertion, requires ...string) *entry {
	ref := a.Ref()
	e := &entry{Label: label, A: a, typ: a.Type(), pk: ref.PrimaryKey, rev: a.Revision(), fmt: a.Format(), requires: requires}
	e.uniq = uniqOf(e.typ, e.pk)
	if e.typ.SequenceForming() {
		e.seq, _ = strconv.Atoi(e.pk[len(e.pk)-1])
	}
	return e
}

func uniqOf(t *asserts.AssertionType, pk []string) string {
	return t.Name + "/" + strings.Join(pk, "/")
}

// layer: identity -> format -> entry (what a backstore holds)
type layer map[string]map[int]*entry

func (l layer) put(e *entry) {
	if l[e.uniq] == nil {
		l[e.uniq] = map[int]*entry{}
	}
	l[e.uniq][e.fmt] = e
}

// cur: the highest revision among the stored formats <= maxFormat
func (l layer) cur(uniq string, maxFormat int) *entry {
	var best *entry
	for f, e := range l[uniq] {
		if f <= maxFormat && (best == nil || e.rev > best.rev) {
			best = e
		}
	}
	return best
}

type refDB struct {
	trusted, predefined, stored layer
}

func newRef(trusted, predefined []*entry) *refDB {
	r := &refDB{trusted: layer{}, predefined: layer{}, stored: layer{}}
	for _, e := range trusted {
		r.trusted.put(e)
	}
	for _, e := range predefined {
		r.predefined.put(e)
	}
	return r
}

func (r *refDB) layers(which string) []layer {
	switch which {
	case "trusted":
		return []layer{r.trusted}
	case "predefined":
		return []layer{r.trusted, r.predefined}
	}
	return []layer{r.trusted, r.predefined, r.stored}
}

func (r *refDB) curAcross(which, uniq string, maxFormat int) *entry {
	for _, l := range r.layers(which) {
		if e := l.cur(uniq, maxFormat); e != nil {
			return e
		}
	}
	return nil
}

func maxSupp(t *asserts.AssertionType) int { return t.MaxSupportedFormat() }

// add is the reference for Database.Add of a validly signed assertion.
func (r *refDB) add(e *entry) string {
	if e.fmt > maxSupp(e.typ) {
		return fmt.Sprintf("unsupported-format:%d:update=%v", e.fmt, r.curAcross("all", e.uniq, maxSupp(e.typ)) != nil)
	}
	for _, need := range e.requires {
		t := asserts.Type(strings.SplitN(need, "/", 2)[0])
		if r.curAcross("all", need, maxSupp(t)) == nil {
			return "prereq-missing"
		}
	}
	if r.trusted.cur(e.uniq, maxSupp(e.typ)) != nil {
		return "clash-trusted"
	}
	if r.predefined.cur(e.uniq, maxSupp(e.typ)) != nil {
		return "clash-predefined"
	}
	if cur := r.stored.cur(e.uniq, maxSupp(e.typ)); cur != nil && cur.rev >= e.rev {
		return fmt.Sprintf("revision-error:used=%d:current=%d", e.rev, cur.rev)
	}
	r.stored.put(e)
	return "ok"
}

func matches(e *entry, headers map[string]string) bool {
	for k, v := range headers {
		if e.A.Header(k) != v {
			return false
		}
	}
	return true
}

// keyFromHeaders: values of the named primary key headers, defaults filled in; "" if one is missing.
func keyFromHeaders(t *asserts.AssertionType, names []string, headers map[string]string, useDefaults bool) ([]string, bool) {
	var out []string
	for _, n := range names {
		v := headers[n]
		if v == "" && useDefaults {
			v = t.OptionalPrimaryKeyDefaults[n]
		}
		if v == "" {
			return nil, false
		}
		out = append(out, v)
	}
	return out, true
}

func (r *refDB) find(which string, t *asserts.AssertionType, headers map[string]string, maxFormat int) string {
	if maxFormat == -1 {
		maxFormat = maxSupp(t)
	} else if maxFormat > maxSupp(t) {
		return "format-too-high"
	}
	pk, ok := keyFromHeaders(t, t.PrimaryKey, headers, true)
	if !ok {
		return "missing-primary-key"
	}
	e := r.curAcross(which, uniqOf(t, pk), maxFormat)
	if e == nil || !matches(e, headers) {
		return "not-found"
	}
	return e.Label
}

func (r *refDB) findMany(which string, t *asserts.AssertionType, headers map[string]string) string {
	var labels []string
	for _, l := range r.layers(which) {
		for uniq := range l {
			if !strings.HasPrefix(uniq, t.Name+"/") {
				continue
			}
			if e := l.cur(uniq, maxSupp(t)); e != nil && matches(e, headers) {
				labels = append(labels, e.Label)
			}
		}
	}
	if len(labels) == 0 {
		return "not-found"
	}
	sort.Strings(labels)
	return strings.Join(labels, ",")
}

func (r *refDB) findSequence(t *asserts.AssertionType, headers map[string]string, after, maxFormat int) string {
	if maxFormat == -1 {
		maxFormat = maxSupp(t)
	} else if maxFormat > maxSupp(t) {
		return "format-too-high"
	}
	sk, ok := keyFromHeaders(t, t.PrimaryKey[:len(t.PrimaryKey)-1], headers, false)
	if !ok {
		return "missing-primary-key"
	}
	prefix := uniqOf(t, sk) + "/"
	var best *entry
	for _, l := range r.layers("all") {
		var lbest *entry // the member this backstore answers with
		for uniq := range l {
			if !strings.HasPrefix(uniq, prefix) {
				continue
			}
			e := l.cur(uniq, maxFormat)
			if e == nil {
				continue
			}
			if after == -1 {
				if lbest == nil || e.seq > lbest.seq {
					lbest = e
				}
			} else if e.seq > after {
				if lbest == nil || e.seq < lbest.seq {
					lbest = e
				}
			}
		}
		if lbest == nil {
			continue
		}
		if best == nil || (after == -1 && lbest.seq > best.seq) || (after != -1 && lbest.seq < best.seq) {
			best = lbest
		}
	}
	if best == nil {
		return "not-found"
	}
	return best.Label
}

func (r *refDB) stateKey() string {
	var parts []string
	for uniq, fm := range r.stored {
		for f, e := range fm {
			parts = append(parts, fmt.Sprintf("%s@%d=%s", uniq, f, e.Label))
		}
	}
	sort.Strings(parts)
	return strings.Join(parts, ";")
}

// ---------------------------------------------------------------- queries

type query struct {
	Kind      string            `json:"kind"` // find | find-predefined | find-trusted | find-max-format | find-many | find-many-predefined | find-sequence
	Type      string            `json:"type"`
	Headers   map[string]string `json:"headers"`
	After     int               `json:"after,omitempty"`
	MaxFormat int               `json:"max_format,omitempty"`
}

func (q query) String() string {
	var hs []string
	for k, v := range q.Headers {
		hs = append(hs, k+"="+v)
	}
	sort.Strings(hs)
	s := q.Kind + "(" + q.Type + "{" + strings.Join(hs, ",") + "}"
	switch q.Kind {
	case "find-max-format":
		s += fmt.Sprintf(",maxFormat=%d", q.MaxFormat)
	case "find-sequence":
		s += fmt.Sprintf(",after=%d,maxFormat=%d", q.After, q.MaxFormat)
	}
	return s + ")"
}

func classify(err error) string {
	if err == nil {
		return "ok"
	}
	var re *asserts.RevisionError
	var ufe *asserts.UnsupportedFormatError
	switch {
	case errors.As(err, &re):
		return fmt.Sprintf("revision-error:used=%d:current=%d", re.Used, re.Current)
	case errors.As(err, &ufe):
		return fmt.Sprintf("unsupported-format:%d:update=%v", ufe.Format, ufe.Update)
	case errors.Is(err, &asserts.NotFoundError{}):
		return "not-found"
	}
	s := err.Error()
	for _, m := range []struct{ sub, kind string }{
		{"clashing with a trusted assertion", "clash-trusted"},
		{"clashing with a predefined assertion", "clash-predefined"},
		{"does not have a matching", "prereq-missing"},
		{"higher than supported format", "format-too-high"},
		{"must provide primary key", "missing-primary-key"},
	} {
		if strings.Contains(s, m.sub) {
			return m.kind
		}
	}
	return "error:" + s
}

type world struct {
	sc     *scenario
	labels map[string]string // encoded assertion -> label
}

func (w *world) label(a asserts.Assertion) string {
	if l, ok := w.labels[string(asserts.Encode(a))]; ok {
		return l
	}
	return fmt.Sprintf("UNKNOWN-ASSERTION(%s rev %d format %d)", a.Ref().Unique(), a.Revision(), a.Format())
}

func (w *world) runImpl(db *asserts.Database, q query) string {
	t := asserts.Type(q.Type)
	var a asserts.Assertion
	var as []asserts.Assertion
	var err error
	switch q.Kind {
	case "find":
		a, err = db.Find(t, q.Headers)
	case "find-predefined":
		a, err = db.FindPredefined(t, q.Headers)
	case "find-trusted":
		a, err = db.FindTrusted(t, q.Headers)
	case "find-max-format":
		a, err = db.FindMaxFormat(t, q.Headers, q.MaxFormat)
	case "find-many":
		as, err = db.FindMany(t, q.Headers)
	case "find-many-predefined":
		as, err = db.FindManyPredefined(t, q.Headers)
	case "find-sequence":
		var sm asserts.SequenceMember
		sm, err = db.FindSequence(t, q.Headers, q.After, q.MaxFormat)
		if err == nil {
			a = sm
		}
	default:
		eng.HarnessError("unknown query kind %q", q.Kind)
	}
	if err != nil {
		return classify(err)
	}
	if as != nil {
		var ls []string
		for _, x := range as {
			ls = append(ls, w.label(x))
		}
		sort.Strings(ls) // the order of multi-results is unspecified
		return strings.Join(ls, ",")
	}
	return w.label(a)
}

func (r *refDB) run(q query) string {
	t := asserts.Type(q.Type)
	switch q.Kind {
	case "find":
		return r.find("all", t, q.Headers, -1)
	case "find-predefined":
		return r.find("predefined", t, q.Headers, -1)
	case "find-trusted":
		return r.find("trusted", t, q.Headers, -1)
	case "find-max-format":
		return r.find("all", t, q.Headers, q.MaxFormat)
	case "find-many":
		return r.findMany("all", t, q.Headers)
	case "find-many-predefined":
		return r.findMany("predefined", t, q.Headers)
	case "find-sequence":
		return r.findSequence(t, q.Headers, q.After, q.MaxFormat)
	}
	return "?"
}

// ---------------------------------------------------------------- scenarios

type scenario struct {
	Name       string
	trusted    []*entry
	predefined []*entry
	prereq     []*entry // added first to every database (part of the initial state)
	pool       []*entry
	queries    []query
	depthQ     int
	depthT     int
}

func h(kv ...string) map[string]string {
	m := map[string]string{}
	for i := 0; i+1 < len(kv); i += 2 {
		m[kv[i]] = kv[i+1]
	}
	return m
}

type signer interface {
	Sign(assertType *asserts.AssertionType, headers map[string]interface{}, body []byte, keyID string) (asserts.Assertion, error)
}

func mustSign(s signer, t *asserts.AssertionType, headers map[string]interface{}, body []byte, keyID string) asserts.Assertion {
	if rev, ok := headers["revision"]; ok && rev == "0" {
		delete(headers, "revision")
	}
	if f, ok := headers["format"]; ok && f == "0" {
		delete(headers, "format")
	}
	a, err := s.Sign(t, headers, body, keyID)
	if err != nil {
		eng.HarnessError("C19 fixture: cannot sign %s: %v", t.Name, err)
	}
	return a
}

const (
	snapID1 = "snapidsnapidsnapidsnapidsnapid01"
	snapID2 = "snapidsnapidsnapidsnapidsnapid02"
	shaX    = "QlqR0uAWEAWF5Nwnzj5kqmmwFslYPu1IL16MKtLKhwhv0kpBv5wKZ_axf_nf_2cL"
	shaY    = "Alq20uAWEAWF5Nwnzj5kqmmwFslYPu1IL16MKtLKhwhv0kpBv5wKZ_axf_nf_2cM"
)

func buildScenarios() []*scenario {
	// validation-set gets a second format for the whole run so that FindSequence's maxFormat matters
	asserts.MockMaxSupportedFormat(asserts.ValidationSetType, 1)

	ss := assertstest.NewStoreStack("canonical", nil)
	now := time.Now().Format(time.RFC3339)
	trusted := []*entry{mkEntry("T:account-canonical", ss.TrustedAccount), mkEntry("T:key-root", ss.TrustedKey)}
	storeKey := mkEntry("I:key-store", ss.StoreAccountKey(""))
	dev1 := assertstest.NewAccount(ss, "dev1", map[string]interface{}{"account-id": "dev1"}, "")
	dev1E := mkEntry("I:account-dev1", dev1)

	var scs []*scenario

	// ---- S1: revisions and formats of a plain type
	{
		decl := func(label, snapID, name string, rev, format int) *entry {
			if format > asserts.SnapDeclarationType.MaxSupportedFormat() {
				defer asserts.MockMaxSupportedFormat(asserts.SnapDeclarationType, format)()
			}
			a := mustSign(ss, asserts.SnapDeclarationType, map[string]interface{}{
				"series": "16", "snap-id": snapID, "snap-name": name, "publisher-id": "dev1", "timestamp": now,
				"revision": strconv.Itoa(rev), "format": strconv.Itoa(format),
			}, nil, "")
			return mkEntry(label, a, dev1E.uniq)
		}
		sc := &scenario{Name: "revisions-formats", trusted: trusted, prereq: []*entry{storeKey, dev1E}, depthQ: 3, depthT: 5}
		sc.pool = []*entry{
			decl("s1:r0:f0", snapID1, "foo", 0, 0),
			decl("s1:r1:f1", snapID1, "foo", 1, 1),
			decl("s1:r2:f0", snapID1, "foo-two", 2, 0),
			decl("s1:r2:f1", snapID1, "foo", 2, 1),
			decl("s1:r10:f0", snapID1, "foo", 10, 0),
			decl("s1:r10:f1", snapID1, "foo-ten", 10, 1),
			decl("s1:r11:f7-unsupported", snapID1, "foo", 11, 7),
			decl("s2:r0:f0", snapID2, "bar", 0, 0),
			decl("s2:r1:f1", snapID2, "foo", 1, 1),
		}
		T := "snap-declaration"
		sc.queries = []query{
			{Kind: "find", Type: T, Headers: h("series", "16", "snap-id", snapID1)},
			{Kind: "find", Type: T, Headers: h("series", "16", "snap-id", snapID2)},
			{Kind: "find", Type: T, Headers: h("series", "16", "snap-id", "absent")},
			{Kind: "find", Type: T, Headers: h("snap-id", snapID1)},
			{Kind: "find", Type: T, Headers: h("series", "16", "snap-id", snapID1, "snap-name", "foo")},
			{Kind: "find", Type: T, Headers: h("series", "16", "snap-id", snapID1, "snap-name", "foo-two")},
			{Kind: "find-max-format", Type: T, Headers: h("series", "16", "snap-id", snapID1), MaxFormat: 0},
			{Kind: "find-max-format", Type: T, Headers: h("series", "16", "snap-id", snapID1), MaxFormat: 1},
			{Kind: "find-max-format", Type: T, Headers: h("series", "16", "snap-id", snapID1), MaxFormat: 6},
			{Kind: "find-max-format", Type: T, Headers: h("series", "16", "snap-id", snapID1), MaxFormat: 7},
			{Kind: "find-max-format", Type: T, Headers: h("series", "16", "snap-id", snapID2), MaxFormat: 0},
			{Kind: "find-predefined", Type: T, Headers: h("series", "16", "snap-id", snapID1)},
			{Kind: "find-many", Type: T, Headers: h()},
			{Kind: "find-many", Type: T, Headers: h("series", "16")},
			{Kind: "find-many", Type: T, Headers: h("snap-id", snapID1)},
			{Kind: "find-many", Type: T, Headers: h("snap-name", "foo")},
			{Kind: "find-many", Type: T, Headers: h("snap-name", "foo-ten")},
			{Kind: "find-many", Type: T, Headers: h("publisher-id", "dev1", "series", "16")},
			{Kind: "find-many", Type: T, Headers: h("snap-name", "nope")},
			{Kind: "find-many-predefined", Type: T, Headers: h()},
		}
		scs = append(scs, sc)
	}

	// ---- S2: sequence-forming type, with a predefined member and formats
	{
		vs := func(label, name string, seq, rev, format int) *entry {
			a := mustSign(ss, asserts.ValidationSetType, map[string]interface{}{
				"series": "16", "account-id": "canonical", "name": name, "sequence": strconv.Itoa(seq),
				"snaps":     []interface{}{map[string]interface{}{"name": "foo", "id": snapID1, "presence": "optional"}},
				"timestamp": now, "revision": strconv.Itoa(rev), "format": strconv.Itoa(format),
			}, nil, "")
			return mkEntry(label, a)
		}
		sc := &scenario{Name: "sequences", trusted: trusted, prereq: []*entry{storeKey}, depthQ: 3, depthT: 5}
		sc.predefined = []*entry{vs("P:vs3:seq2:r0:f0", "vs3", 2, 0, 0)}
		sc.pool = []*entry{
			vs("vs1:seq1:r0:f0", "vs1", 1, 0, 0),
			vs("vs1:seq1:r1:f1", "vs1", 1, 1, 1),
			vs("vs1:seq2:r0:f1", "vs1", 2, 0, 1),
			vs("vs1:seq2:r1:f0", "vs1", 2, 1, 0),
			vs("vs1:seq3:r0:f0", "vs1", 3, 0, 0),
			vs("vs1:seq10:r0:f0", "vs1", 10, 0, 0),
			vs("vs2:seq2:r0:f1", "vs2", 2, 0, 1),
			vs("vs3:seq1:r0:f0", "vs3", 1, 0, 0),
			vs("vs3:seq3:r0:f1", "vs3", 3, 0, 1),
			vs("vs3:seq2:r1:f0-clash", "vs3", 2, 1, 0),
		}
		T := "validation-set"
		for _, name := range []string{"vs1", "vs2", "vs3", "absent"} {
			for _, after := range []int{-1, 0, 1, 2, 3, 9, 10} {
				for _, mf := range []int{-1, 0} {
					if name != "vs1" && (after == 9 || after == 10 || after == 0) {
						continue
					}
					sc.queries = append(sc.queries, query{Kind: "find-sequence", Type: T, Headers: h("series", "16", "account-id", "canonical", "name", name), After: after, MaxFormat: mf})
				}
			}
		}
		sc.queries = append(sc.queries,
			query{Kind: "find-sequence", Type: T, Headers: h("series", "16", "account-id", "canonical", "name", "vs1"), After: -1, MaxFormat: 1},
			query{Kind: "find-sequence", Type: T, Headers: h("series", "16", "account-id", "canonical", "name", "vs1"), After: 1, MaxFormat: 2},
			query{Kind: "find-sequence", Type: T, Headers: h("series", "16", "account-id", "canonical"), After: -1, MaxFormat: -1},
			query{Kind: "find-sequence", Type: T, Headers: h("series", "16", "account-id", "canonical", "name", "vs1", "sequence", "1"), After: 1, MaxFormat: -1},
			query{Kind: "find", Type: T, Headers: h("series", "16", "account-id", "canonical", "name", "vs1", "sequence", "1")},
			query{Kind: "find", Type: T, Headers: h("series", "16", "account-id", "canonical", "name", "vs1", "sequence", "2")},
			query{Kind: "find", Type: T, Headers: h("series", "16", "account-id", "canonical", "name", "vs1", "sequence", "10")},
			query{Kind: "find", Type: T, Headers: h("series", "16", "account-id", "canonical", "name", "vs3", "sequence", "2")},
			query{Kind: "find-max-format", Type: T, Headers: h("series", "16", "account-id", "canonical", "name", "vs1", "sequence", "1"), MaxFormat: 0},
			query{Kind: "find-max-format", Type: T, Headers: h("series", "16", "account-id", "canonical", "name", "vs1", "sequence", "2"), MaxFormat: 0},
			query{Kind: "find-many", Type: T, Headers: h("name", "vs1")},
			query{Kind: "find-many", Type: T, Headers: h("sequence", "2")},
			query{Kind: "find-many", Type: T, Headers: h()},
			query{Kind: "find-many-predefined", Type: T, Headers: h()},
		)
		scs = append(scs, sc)
	}

	// ---- S3: clashes with trusted and predefined assertions; an assertion with a prerequisite
	{
		predefined := []*entry{mkEntry("P:account-generic", ss.GenericAccount), mkEntry("P:key-generic-models", ss.GenericModelsKey), mkEntry("P:model-generic-classic", ss.GenericClassicModel)}
		rootAcct1 := mustSign(ss.RootSigning, asserts.AccountType, map[string]interface{}{
			"account-id": "canonical", "display-name": "Canonical", "username": "canonical", "validation": "verified", "timestamp": now, "revision": "1"}, nil, "")
		genericAcct1 := mustSign(ss.RootSigning, asserts.AccountType, map[string]interface{}{
			"account-id": "generic", "display-name": "Generic", "username": "generic", "validation": "verified", "timestamp": now, "revision": "1"}, nil, "")
		rootPub, _ := ss.RootSigning.PublicKey("")
		rootKey1 := assertstest.NewAccountKey(ss.RootSigning, ss.TrustedAccount, map[string]interface{}{"name": "root", "revision": "1"}, rootPub, "")
		model1 := mustSign(ss.RootSigning, asserts.ModelType, map[string]interface{}{
			"authority-id": "generic", "series": "16", "brand-id": "generic", "model": "generic-classic", "classic": "true", "timestamp": now, "revision": "1"},
			nil, ss.GenericModelsKey.PublicKeyID())
		dev1r1 := assertstest.NewAccount(ss, "dev1", map[string]interface{}{"account-id": "dev1", "revision": "1", "display-name": "Dev One"}, "")
		devPriv, _ := assertstest.GenerateKey(752)
		dev1Key := assertstest.NewAccountKey(ss, dev1, nil, devPriv.PublicKey(), "")
		dev1Key1 := assertstest.NewAccountKey(ss, dev1, map[string]interface{}{"revision": "1"}, devPriv.PublicKey(), "")
		dev1r0 := mkEntry("account-dev1:r0", dev1)
		sc := &scenario{Name: "clashes", trusted: trusted, predefined: predefined, prereq: []*entry{storeKey}, depthQ: 4, depthT: 5}
		sc.pool = []*entry{
			mkEntry("account-canonical:r1-clash-trusted", rootAcct1),
			mkEntry("key-root:r1-clash-trusted", rootKey1),
			mkEntry("account-generic:r1-clash-predefined", genericAcct1),
			mkEntry("model-generic-classic:r1-clash-predefined", model1),
			dev1r0,
			mkEntry("account-dev1:r1", dev1r1),
			mkEntry("key-dev1:r0", dev1Key, dev1r0.uniq),
			mkEntry("key-dev1:r1", dev1Key1, dev1r0.uniq),
		}
		for _, kind := range []string{"find", "find-predefined", "find-trusted"} {
			sc.queries = append(sc.queries,
				query{Kind: kind, Type: "account", Headers: h("account-id", "canonical")},
				query{Kind: kind, Type: "account", Headers: h("account-id", "generic")},
				query{Kind: kind, Type: "account", Headers: h("account-id", "dev1")},
				query{Kind: kind, Type: "account-key", Headers: h("public-key-sha3-384", ss.TrustedKey.PublicKeyID())},
				query{Kind: kind, Type: "account-key", Headers: h("public-key-sha3-384", devPriv.PublicKey().ID())},
				query{Kind: kind, Type: "model", Headers: h("series", "16", "brand-id", "generic", "model", "generic-classic")},
			)
		}
		for _, kind := range []string{"find-many", "find-many-predefined"} {
			sc.queries = append(sc.queries,
				query{Kind: kind, Type: "account", Headers: h()},
				query{Kind: kind, Type: "account-key", Headers: h()},
				query{Kind: kind, Type: "model", Headers: h()},
				query{Kind: kind, Type: "account-key", Headers: h("account-id", "dev1")},
				query{Kind: kind, Type: "account", Headers: h("display-name", "Dev One")},
			)
		}
		scs = append(scs, sc)
	}

	// ---- S4: a type with an optional primary key header (different on-disk layout for default / non-default values)
	{
		declA := mustSign(ss, asserts.SnapDeclarationType, map[string]interface{}{
			"series": "16", "snap-id": snapID1, "snap-name": "foo", "publisher-id": "dev1", "timestamp": now,
			"revision-authority": []interface{}{map[string]interface{}{"account-id": "canonical", "provenance": []interface{}{"p1", "p2"}}},
		}, nil, "")
		declE := mkEntry("I:decl-s1", declA)
		rev := func(label, sha, prov string, revision, snapRev int) *entry {
			hd := map[string]interface{}{
				"snap-sha3-384": sha, "snap-size": "100", "snap-id": snapID1, "snap-revision": strconv.Itoa(snapRev),
				"developer-id": "dev1", "timestamp": now, "revision": strconv.Itoa(revision),
			}
			if prov != "" {
				hd["provenance"] = prov
			}
			return mkEntry(label, mustSign(ss, asserts.SnapRevisionType, hd, nil, ""), dev1E.uniq, declE.uniq)
		}
		sc := &scenario{Name: "optional-primary-key", trusted: trusted, prereq: []*entry{storeKey, dev1E, declE}, depthQ: 4, depthT: 6}
		sc.pool = []*entry{
			rev("X:default:r0", shaX, "", 0, 5),
			rev("X:default:r1", shaX, "global-upload", 1, 6),
			rev("X:p1:r0", shaX, "p1", 0, 5),
			rev("X:p1:r1", shaX, "p1", 1, 7),
			rev("Y:default:r0", shaY, "", 0, 5),
			rev("Y:p2:r0", shaY, "p2", 0, 8),
		}
		T := "snap-revision"
		sc.queries = []query{
			{Kind: "find", Type: T, Headers: h("snap-sha3-384", shaX)},
			{Kind: "find", Type: T, Headers: h("snap-sha3-384", shaX, "provenance", "global-upload")},
			{Kind: "find", Type: T, Headers: h("snap-sha3-384", shaX, "provenance", "p1")},
			{Kind: "find", Type: T, Headers: h("snap-sha3-384", shaX, "provenance", "p2")},
			{Kind: "find", Type: T, Headers: h("snap-sha3-384", shaY)},
			{Kind: "find", Type: T, Headers: h("snap-sha3-384", shaY, "provenance", "p2")},
			{Kind: "find", Type: T, Headers: h("snap-sha3-384", shaX, "snap-revision", "5")},
			{Kind: "find", Type: T, Headers: h("provenance", "p1")},
			{Kind: "find-many", Type: T, Headers: h()},
			{Kind: "find-many", Type: T, Headers: h("snap-sha3-384", shaX)},
			{Kind: "find-many", Type: T, Headers: h("snap-sha3-384", shaY)},
			{Kind: "find-many", Type: T, Headers: h("provenance", "p1")},
			{Kind: "find-many", Type: T, Headers: h("provenance", "p2")},
			{Kind: "find-many", Type: T, Headers: h("provenance", "global-upload")},
			{Kind: "find-many", Type: T, Headers: h("snap-sha3-384", shaX, "provenance", "global-upload")},
			{Kind: "find-many", Type: T, Headers: h("snap-id", snapID1)},
			{Kind: "find-many", Type: T, Headers: h("snap-id", snapID1, "provenance", "p2")},
			{Kind: "find-many", Type: T, Headers: h("snap-revision", "5")},
			{Kind: "find-many", Type: T, Headers: h("snap-revision", "5", "provenance", "global-upload")},
			{Kind: "find-many-predefined", Type: T, Headers: h()},
		}
		scs = append(scs, sc)
	}
	// cheapest first, so that a time cap on a loaded machine cuts the biggest scenario only
	sort.SliceStable(scs, func(i, j int) bool { return len(scs[i].pool) < len(scs[j].pool) })
	return scs
}

// ---------------------------------------------------------------- running one trace

type c19Case struct {
	Scenario string   `json:"scenario"`
	Path     []string `json:"path"` // labels of the assertions added, in order
	Where    string   `json:"where,omitempty"`
	Observed string   `json:"observed,omitempty"`
	Expected string   `json:"expected,omitempty"`
}

type finding struct {
	where, observed, expected string
}

func asAssertions(es []*entry) []asserts.Assertion {
	var out []asserts.Assertion
	for _, e := range es {
		out = append(out, e.A)
	}
	return out
}

func (w *world) open(bs asserts.Backstore) *asserts.Database {
	db, err := asserts.OpenDatabase(&asserts.DatabaseConfig{Backstore: bs, Trusted: asAssertions(w.sc.trusted), OtherPredefined: asAssertions(w.sc.predefined)})
	if err != nil {
		eng.HarnessError("C19: OpenDatabase: %v", err)
	}
	return db
}

var dirCounter int64

// runTrace replays path (indices into the pool) on fresh databases, checks every Add result and then the whole query battery.
func (w *world) runTrace(baseDir string, path []int, stats *traceStats) (fs []finding, ref *refDB, lastOutcome string, heldBefore bool) {
	sc := w.sc
	dir := filepath.Join(baseDir, fmt.Sprintf("t%d", atomic.AddInt64(&dirCounter, 1)))
	defer os.RemoveAll(dir)
	fsbs, err := asserts.OpenFSBackstore(dir)
	if err != nil {
		eng.HarnessError("C19: OpenFSBackstore: %v", err)
	}
	membs := asserts.NewMemoryBackstore()
	names := []string{"memory", "filesystem", "filesystem-reopened"}
	ref = newRef(sc.trusted, sc.predefined)
	// the initial state: prerequisite assertions (accounts, keys) are put straight into the backstores; that they
	// pass Database.Add is checked once per scenario (checkPrereqs)
	for _, e := range sc.prereq {
		if out := ref.add(e); out != "ok" {
			eng.HarnessError("C19: reference refuses prerequisite %s: %s", e.Label, out)
		}
		for i, bs := range []asserts.Backstore{membs, fsbs} {
			if err := bs.Put(e.typ, e.A); err != nil {
				eng.HarnessError("C19: %s backstore refuses prerequisite %s: %v", names[i], e.Label, err)
			}
		}
	}
	dbs := []*asserts.Database{w.open(membs), w.open(fsbs)}
	for step, pi := range path {
		e := sc.pool[pi]
		heldBefore = ref.curAcross("all", e.uniq, 1<<30) != nil
		want := ref.add(e)
		lastOutcome = want
		for i, db := range dbs {
			got := classify(db.Add(e.A))
			if got != want {
				fs = append(fs, finding{fmt.Sprintf("step %d Add(%s) on %s", step, e.Label, names[i]), got, want})
			}
		}
	}
	// reopen the directory: what was persisted must answer the same
	fsbs2, err := asserts.OpenFSBackstore(dir)
	if err != nil {
		eng.HarnessError("C19: OpenFSBackstore (reopen): %v", err)
	}
	// the battery runs on the memory database and on the reopened directory (the live filesystem database has
	// answered every Add above; its backstore keeps no state besides the directory)
	qdbs := []*asserts.Database{dbs[0], w.open(fsbs2)}
	qnames := []string{names[0], names[2]}
	for _, q := range sc.queries {
		want := ref.run(q)
		stats.queries++
		if want != "not-found" {
			stats.answered++
		}
		for i, db := range qdbs {
			got := w.runImpl(db, q)
			if got != want {
				fs = append(fs, finding{fmt.Sprintf("%s on %s", q, qnames[i]), got, want})
			}
		}
	}
	return fs, ref, lastOutcome, heldBefore
}

// checkPrereqs: the initial state is itself reachable through Database.Add on both kinds of database.
func (w *world) checkPrereqs(baseDir string) {
	fsbs, err := asserts.OpenFSBackstore(filepath.Join(baseDir, "prereq-"+w.sc.Name))
	if err != nil {
		eng.HarnessError("C19: OpenFSBackstore: %v", err)
	}
	for i, db := range []*asserts.Database{w.open(asserts.NewMemoryBackstore()), w.open(fsbs)} {
		for _, e := range w.sc.prereq {
			if err := db.Add(e.A); err != nil {
				eng.HarnessError("C19: database %d refuses prerequisite %s: %v", i, e.Label, err)
			}
		}
	}
}

// scratchBase: the filesystem backstores live on tmpfs when there is one (tens of thousands of tiny directories).
func scratchBase() string {
	for _, parent := range []string{"/dev/shm", eng.WorkDir()} {
		os.MkdirAll(parent, 0755)
		if d, err := os.MkdirTemp(parent, "verif-c19-"); err == nil {
			return d
		}
	}
	eng.HarnessError("C19: no scratch directory")
	return ""
}

type traceStats struct {
	queries, answered int64
}

func (w *world) pathLabels(path []int) []string {
	var out []string
	for _, i := range path {
		out = append(out, w.sc.pool[i].Label)
	}
	return out
}

func newWorld(sc *scenario) *world {
	w := &world{sc: sc, labels: map[string]string{}}
	for _, l := range [][]*entry{sc.trusted, sc.predefined, sc.prereq, sc.pool} {
		for _, e := range l {
			w.labels[string(asserts.Encode(e.A))] = e.Label
		}
	}
	return w
}

// ---------------------------------------------------------------- the test

func TestC19(t *testing.T) {
	r := eng.Start("C19", "model_checking", 90*time.Second, 10*time.Minute)
	r.Assume("reference model: immutable trusted and predefined layers in front of a map identity -> format -> last successfully added assertion; current = highest revision among formats <= the format bound",
		"all pool assertions are validly signed (assertstest store stack, freshly generated test keys); validation-set is given a second supported format (asserts.MockMaxSupportedFormat) so that format bounds matter for sequences",
		"filesystem backstore under a temporary directory with snapd's test-binary default SNAPD_UNSAFE_IO (no fsync)")
	scs := buildScenarios()
	baseDir := scratchBase()
	finish := func(rule string) {
		os.RemoveAll(baseDir) // Finish exits the process: no deferred cleanup would run
		r.Finish(rule)
	}

	if rc := r.ReplayCase(); rc != nil {
		var c c19Case
		if err := json.Unmarshal(rc, &c); err != nil {
			eng.HarnessError("C19 replay: %v", err)
		}
		for _, sc := range scs {
			if sc.Name != c.Scenario {
				continue
			}
			w := newWorld(sc)
			var path []int
			for _, l := range c.Path {
				found := false
				for i, e := range sc.pool {
					if e.Label == l {
						path = append(path, i)
						found = true
					}
				}
				if !found {
					eng.HarnessError("C19 replay: no pool assertion labelled %q", l)
				}
			}
			for n := 0; n < 5; n++ {
				fs, _, _, _ := w.runTrace(baseDir, path, &traceStats{})
				fmt.Printf("replay %s %v: %d disagreements\n", sc.Name, c.Path, len(fs))
				for _, f := range fs {
					fmt.Printf("  %s: observed %s, expected %s\n", f.where, f.observed, f.expected)
					r.Violation(sc.Name+":"+strings.Join(c.Path, ">")+":"+f.where, fmt.Sprintf("observed %s, expected %s", f.observed, f.expected), c)
				}
			}
			finish("replay")
		}
		os.RemoveAll(baseDir)
		eng.HarnessError("C19 replay: unknown scenario %q", c.Scenario)
	}

	bounds := map[string]int{}
	var traces, nontrivial, queries, answered, refused, superseded int64
	worlds := map[string]*world{}
	maxDepth := 0
	for _, sc := range scs {
		w := newWorld(sc)
		w.checkPrereqs(baseDir)
		worlds[sc.Name] = w
		d := r.Pick(sc.depthQ, sc.depthT)
		bounds[sc.Name+"_pool"] = len(sc.pool)
		bounds[sc.Name+"_depth"] = d
		bounds[sc.Name+"_queries"] = len(sc.queries)
		if d > maxDepth {
			maxDepth = d
		}
		r.Sample(map[string]interface{}{"scenario": sc.Name, "pool": w.pathLabels(seqInts(len(sc.pool))), "example_query": sc.queries[0].String()})
	}
	// iterative deepening across the scenarios: all sequences of length L of every scenario before length L+1,
	// so that a time cap on a loaded machine leaves every scenario explored to a stated, complete depth
	completed := map[string]int{}
	stopped := false
	for L := 0; L <= maxDepth && !stopped; L++ {
		for _, sc := range scs {
			if L > r.Pick(sc.depthQ, sc.depthT) {
				continue
			}
			sc := sc
			w := worlds[sc.Name]
			n := len(sc.pool)
			total := 1
			for i := 0; i < L; i++ {
				total *= n
			}
			const block = 16
			var timedOut int32
			eng.ParallelFor((total+block-1)/block, func(bi int) {
				var st traceStats
				var nt, ntr, nref, nsup int64
				for idx := bi * block; idx < (bi+1)*block && idx < total; idx++ {
					if r.TimeUp() {
						atomic.StoreInt32(&timedOut, 1)
						break
					}
					path := make([]int, L)
					for k, x := L-1, idx; k >= 0; k-- {
						path[k] = x % n
						x /= n
					}
					fs, ref, last, heldBefore := w.runTrace(baseDir, path, &st)
					ntr++
					r.Distinct("state", sc.Name+"|"+ref.stateKey())
					if L > 0 {
						r.Distinct("add_outcome", last)
						switch {
						case last != "ok":
							nref++
							nt++
						case heldBefore:
							nsup++
							nt++
						}
					}
					for _, f := range fs {
						c := c19Case{Scenario: sc.Name, Path: w.pathLabels(path), Where: f.where, Observed: f.observed, Expected: f.expected}
						r.Violation(sc.Name+":"+strings.Join(c.Path, ">")+":"+f.where, fmt.Sprintf("observed %s, expected %s", f.observed, f.expected), c)
					}
				}
				atomic.AddInt64(&traces, ntr)
				atomic.AddInt64(&nontrivial, nt)
				atomic.AddInt64(&refused, nref)
				atomic.AddInt64(&superseded, nsup)
				atomic.AddInt64(&queries, st.queries)
				atomic.AddInt64(&answered, st.answered)
			})
			if atomic.LoadInt32(&timedOut) != 0 {
				stopped = true
				break
			}
			completed[sc.Name] = L
		}
	}
	r.Info("completed_depth", completed)
	if stopped {
		r.Cap("time", map[string]interface{}{"completed_depth_per_scenario": completed, "note": "all Add sequences up to the completed depth were explored; the next length was cut"})
	}
	r.Add("traces_validated_against_impl", traces)
	r.Add("transitions", traces-int64(len(scs))) // every trace but the empty ones ends in one new Add transition
	r.Add("states", int64(r.DistinctCount("state")))
	r.Add("evaluations", traces)
	r.Add("queries_compared_on_2_stores", queries)
	r.Add("queries_with_an_answer", answered)
	r.Add("traces_last_add_refused", refused)
	r.Add("traces_last_add_supersedes", superseded)
	r.Add("distinct_nontrivial", nontrivial)
	r.Info("bounds", bounds)
	finish("every sequence of Add operations over the scenario pool up to the depth bound (no sampling, no pruning), each replayed on fresh memory, filesystem and reopened-filesystem databases and followed by the full query battery; distinct_nontrivial = traces whose last Add hits an identity that is already held (refused: lower/equal revision, clash, unsupported format, missing prerequisite; or superseding an older revision)")
}

func seqInts(n int) []int {
	out := make([]int, n)
	for i := range out {
		out[i] = i
	}
	return out
}
