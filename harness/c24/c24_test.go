// C24 — the daemon (Go), snap-confine (C) and snap-update-ns (C) agree on valid snap / instance /
// component names and security tags.
//
// The C validators are compiled by this harness, at run time, from the repository's current working
// tree (or the build overlay's replacement of a file, which is how mutant patches reach them), linked
// with /verif/csrc/c24_driver.c, and fed NUL-delimited records through a pipe. The Go validators are
// called directly. Every enumerated string / query gets a verdict from every implementation and the
// verdicts are compared.
package c24_test

import (
	"bytes"
	"encoding/hex"
	"encoding/json"
	"fmt"
	"os"
	"os/exec"
	"path/filepath"
	"sort"
	"strings"
	"sync"
	"sync/atomic"
	"testing"
	"time"

	"github.com/snapcore/snapd/snap"
	"github.com/snapcore/snapd/snap/naming"
	eng "github.com/snapcore/snapd/verifengine"
)

// ------------------------------------------------------------------------------------------------
// building the C side

var lcpSources = []string{"snap.c", "utils.c", "string-utils.c", "error.c", "cleanup-funcs.c", "panic.c"}

var buildDir string

func cleanup() {
	if buildDir != "" {
		os.RemoveAll(buildDir)
	}
}

func fatal(format string, a ...interface{}) {
	cleanup()
	eng.HarnessError(format, a...)
}

type overlayFile struct {
	Replace map[string]string
}

// resolve returns the file to compile for a repository-relative path: the overlay's replacement if
// there is one, else the working-tree file.
func resolver() func(rel string) string {
	repo := os.Getenv("VERIF_REPO")
	if repo == "" {
		repo = "/repo"
	}
	var ov overlayFile
	if p := os.Getenv("VERIF_OVERLAY"); p != "" {
		b, err := os.ReadFile(p)
		if err != nil {
			fatal("cannot read overlay %s: %v", p, err)
		}
		if err := json.Unmarshal(b, &ov); err != nil {
			fatal("cannot parse overlay %s: %v", p, err)
		}
	}
	return func(rel string) string {
		abs := filepath.Join(repo, rel)
		if r, ok := ov.Replace[abs]; ok && r != "" {
			return r
		}
		return abs
	}
}

func copyFile(src, dst string) {
	b, err := os.ReadFile(src)
	if err != nil {
		fatal("cannot read %s: %v", src, err)
	}
	if err := os.WriteFile(dst, b, 0644); err != nil {
		fatal("cannot write %s: %v", dst, err)
	}
}

// buildDriver compiles the C validators + driver into a private directory under $VERIF_WORK and
// returns the binary and the list of source files used (for the evidence).
func buildDriver() (string, []string) {
	res := resolver()
	repo := os.Getenv("VERIF_REPO")
	if repo == "" {
		repo = "/repo"
	}
	base := filepath.Join(eng.WorkDir(), "c24")
	os.MkdirAll(base, 0755)
	// leftovers of killed runs
	if old, _ := filepath.Glob(filepath.Join(base, "build-*")); len(old) > 0 {
		for _, o := range old {
			if fi, err := os.Stat(o); err == nil && time.Since(fi.ModTime()) > time.Hour {
				os.RemoveAll(o)
			}
		}
	}
	d, err := os.MkdirTemp(base, "build-")
	if err != nil {
		fatal("cannot create build dir: %v", err)
	}
	buildDir = d
	lcp := filepath.Join(d, "lcp")
	sun := filepath.Join(d, "sun")
	os.MkdirAll(lcp, 0755)
	os.MkdirAll(sun, 0755)
	var used []string
	// headers of libsnap-confine-private (each resolved through the overlay), then the sources
	hs, _ := filepath.Glob(filepath.Join(repo, "cmd/libsnap-confine-private/*.h"))
	for _, h := range hs {
		rel := filepath.Join("cmd/libsnap-confine-private", filepath.Base(h))
		copyFile(res(rel), filepath.Join(lcp, filepath.Base(h)))
	}
	for _, c := range lcpSources {
		rel := filepath.Join("cmd/libsnap-confine-private", c)
		src := res(rel)
		used = append(used, src)
		copyFile(src, filepath.Join(lcp, c))
	}
	for _, f := range []string{"bootstrap.c", "bootstrap.h"} {
		rel := filepath.Join("cmd/snap-update-ns", f)
		src := res(rel)
		if strings.HasSuffix(f, ".c") {
			used = append(used, src)
		}
		copyFile(src, filepath.Join(sun, f))
	}
	vd := eng.VerifDir()
	stub := filepath.Join(vd, "csrc", "stub")
	drv := filepath.Join(vd, "csrc", "c24_driver.c")
	used = append(used, drv)
	cc := func(args ...string) {
		cmd := exec.Command("gcc", args...)
		out, err := cmd.CombinedOutput()
		if err != nil {
			fatal("C build failed: gcc %s: %v\n%s", strings.Join(args, " "), err, out)
		}
	}
	var objs []string
	var mu sync.Mutex
	var jobs [][]string
	for _, c := range lcpSources {
		o := filepath.Join(d, "lcp-"+strings.TrimSuffix(c, ".c")+".o")
		objs = append(objs, o)
		jobs = append(jobs, []string{"-std=gnu11", "-O2", "-w", "-I" + stub, "-I" + lcp, "-I" + d, "-c", filepath.Join(lcp, c), "-o", o})
	}
	o := filepath.Join(d, "sun-bootstrap.o")
	objs = append(objs, o)
	jobs = append(jobs, []string{"-std=gnu11", "-O2", "-w", "-I" + stub, "-I" + sun, "-c", filepath.Join(sun, "bootstrap.c"), "-o", o})
	o = filepath.Join(d, "driver.o")
	objs = append(objs, o)
	jobs = append(jobs, []string{"-std=gnu11", "-O2", "-Wall", "-I" + stub, "-I" + lcp, "-c", drv, "-o", o})
	_ = mu
	eng.ParallelFor(len(jobs), func(i int) { cc(jobs[i]...) })
	bin := filepath.Join(d, "c24_driver")
	cc(append([]string{"-o", bin}, objs...)...)
	return bin, used
}

// ------------------------------------------------------------------------------------------------
// records

type record struct {
	kind       byte // N, U, T, C
	f1, f2, f3 string
}

func (r record) appendTo(b *bytes.Buffer) {
	b.WriteByte(r.kind)
	b.WriteString(r.f1)
	b.WriteByte(0)
	if r.kind == 'N' {
		return
	}
	b.WriteString(r.f2)
	b.WriteByte(0)
	if r.kind == 'T' {
		b.WriteString(r.f3)
		b.WriteByte(0)
	}
}

type caseJSON struct {
	Kind string    `json:"kind"`
	Text string    `json:"text"` // human readable (%q of the fields)
	F1   string    `json:"f1_hex"`
	F2   string    `json:"f2_hex,omitempty"`
	F3   string    `json:"f3_hex,omitempty"`
	Yaml *yamlCase `json:"yaml,omitempty"`
}

func (r record) toCase() caseJSON {
	return caseJSON{Kind: string(r.kind), Text: fmt.Sprintf("%q %q %q", r.f1, r.f2, r.f3), F1: hex.EncodeToString([]byte(r.f1)), F2: hex.EncodeToString([]byte(r.f2)), F3: hex.EncodeToString([]byte(r.f3))}
}

func (c caseJSON) toRecord() record {
	d := func(s string) string { b, _ := hex.DecodeString(s); return string(b) }
	k := byte('N')
	if c.Kind != "" {
		k = c.Kind[0]
	}
	return record{kind: k, f1: d(c.F1), f2: d(c.F2), f3: d(c.F3)}
}

func runDriver(bin string, recs []record) []byte {
	if len(recs) == 0 {
		return nil
	}
	var in bytes.Buffer
	for _, r := range recs {
		if strings.IndexByte(r.f1, 0) >= 0 || strings.IndexByte(r.f2, 0) >= 0 || strings.IndexByte(r.f3, 0) >= 0 {
			fatal("record with NUL byte generated")
		}
		r.appendTo(&in)
	}
	cmd := exec.Command(bin)
	cmd.Stdin = &in
	var out, errb bytes.Buffer
	cmd.Stdout = &out
	cmd.Stderr = &errb
	if err := cmd.Run(); err != nil {
		fatal("C driver failed: %v; stderr: %s (first record %q)", err, errb.String(), recs[0].f1)
	}
	if out.Len() != len(recs) {
		fatal("C driver returned %d verdicts for %d records; stderr: %s", out.Len(), len(recs), errb.String())
	}
	return out.Bytes()
}

// ------------------------------------------------------------------------------------------------
// Go side verdicts

func goComponent(s string) bool {
	a, b, err := naming.SplitFullComponentName(s)
	if err != nil {
		return false
	}
	return naming.NewComponentRef(a, b).Validate() == nil
}

func goTag(tag, inst string, comp *string) bool {
	p, err := naming.ParseSecurityTag(tag)
	if err != nil {
		return false
	}
	if p.InstanceName() != inst {
		return false
	}
	pc := ""
	if h, ok := p.(naming.HookSecurityTag); ok {
		pc = h.ComponentName()
	}
	if comp == nil {
		return pc == ""
	}
	return pc == *comp
}

// reference predicates: used ONLY to pick which (instance, component) arguments are inside the
// property's quantifier ("a given instance" = a valid instance name); they decide no verdict.
func refSnapName(s string) bool {
	if len(s) < 2 || len(s) > 40 {
		return false
	}
	letter := false
	for i := 0; i < len(s); i++ {
		c := s[i]
		switch {
		case c >= 'a' && c <= 'z':
			letter = true
		case c >= '0' && c <= '9':
		case c == '-':
			if i == 0 || i == len(s)-1 || s[i-1] == '-' {
				return false
			}
		default:
			return false
		}
	}
	return letter
}

func refInstance(s string) bool {
	i := strings.IndexByte(s, '_')
	if i < 0 {
		return refSnapName(s)
	}
	key := s[i+1:]
	if !refSnapName(s[:i]) || len(key) < 1 || len(key) > 10 {
		return false
	}
	for j := 0; j < len(key); j++ {
		c := key[j]
		if !((c >= 'a' && c <= 'z') || (c >= '0' && c <= '9')) {
			return false
		}
	}
	return true
}

const tagMaxLen = 256 // SNAP_SECURITY_TAG_MAX_LEN; the statement only speaks about tags within it

// ------------------------------------------------------------------------------------------------
// judging

type judge struct {
	r           *eng.Run
	suppressed  int64
	evals       int64
	nontrivial  int64
	refDisagree int64
	mu          sync.Mutex
	patterns    map[string]int64
}

func (j *judge) full() bool {
	if j.r.NumViolations() >= 60 {
		j.r.Cap("violations", "enumeration stopped after 60 recorded violations")
		return true
	}
	return false
}

func (j *judge) violation(key, msg string, c caseJSON) {
	if j.r.NumViolations() >= 60 {
		atomic.AddInt64(&j.suppressed, 1)
		return
	}
	j.r.Violation(key, msg, c)
}

// judgeRecords compares C verdicts with the Go verdicts for a batch. Returns per-batch counters.
func (j *judge) judgeRecords(recs []record, out []byte) {
	var ev, nt, rd int64
	pat := map[string]int64{}
	for i, r := range recs {
		v := out[i]
		ev++
		switch r.kind {
		case 'N':
			bits := int(v) & 0x1f
			if v&0xe0 != 0x40 {
				fatal("C driver produced unexpected byte %#x for %q", v, r.f1)
			}
			goSnap := naming.ValidateSnap(r.f1) == nil
			goInst := naming.ValidateInstance(r.f1) == nil
			goComp := goComponent(r.f1)
			cSnap, cInst, cComp, uSnap, uInst := bits&1 != 0, bits&2 != 0, bits&4 != 0, bits&8 != 0, bits&16 != 0
			if goSnap != cSnap || goSnap != uSnap {
				j.violation(fmt.Sprintf("snap-name:%q", r.f1), fmt.Sprintf("snap name %q: daemon ValidateSnap accepts=%v, snap-confine sc_snap_name_validate accepts=%v, snap-update-ns validate_snap_name accepts=%v", r.f1, goSnap, cSnap, uSnap), r.toCase())
			}
			if goInst != cInst || goInst != uInst {
				j.violation(fmt.Sprintf("instance-name:%q", r.f1), fmt.Sprintf("instance name %q: daemon ValidateInstance accepts=%v, snap-confine sc_instance_name_validate accepts=%v, snap-update-ns validate_instance_name accepts=%v", r.f1, goInst, cInst, uInst), r.toCase())
			}
			if goComp != cComp {
				j.violation(fmt.Sprintf("component:%q", r.f1), fmt.Sprintf("component %q: daemon SplitFullComponentName+ComponentRef.Validate accepts=%v, snap-confine sc_snap_component_validate accepts=%v", r.f1, goComp, cComp), r.toCase())
			}
			if goSnap || goInst || goComp || bits != 0 {
				nt++
			}
			if refSnapName(r.f1) != goSnap || refInstance(r.f1) != goInst {
				rd++
			}
			pat[fmt.Sprintf("N:go=%v/%v/%v:c=%d", goSnap, goInst, goComp, bits)]++
		case 'U', 'T':
			if len(r.f1) > tagMaxLen {
				pat["tag-beyond-limit"]++
				continue
			}
			var comp *string
			if r.kind == 'T' {
				comp = &r.f3
			}
			g := goTag(r.f1, r.f2, comp)
			c := v == '1'
			if g != c {
				cs := "NULL"
				if comp != nil {
					cs = fmt.Sprintf("%q", *comp)
				}
				j.violation(fmt.Sprintf("tag:%q:%q:%s", r.f1, r.f2, cs), fmt.Sprintf("security tag %q for instance %q component %s: daemon ParseSecurityTag says belongs=%v, snap-confine sc_security_tag_validate accepts=%v", r.f1, r.f2, cs, g, c), r.toCase())
			}
			if g || c {
				nt++
			}
			pat[fmt.Sprintf("%c:go=%v:c=%v", r.kind, g, c)]++
		case 'C':
			// component with an instance: accepted iff the component is valid and names the instance's snap
			a, _, err := naming.SplitFullComponentName(r.f1)
			g := err == nil && goComponent(r.f1) && a == snap.InstanceSnap(r.f2)
			c := v == '1'
			if g != c {
				j.violation(fmt.Sprintf("component-of:%q:%q", r.f1, r.f2), fmt.Sprintf("component %q of instance %q: daemon says valid-and-matching=%v, snap-confine sc_snap_component_validate accepts=%v", r.f1, r.f2, g, c), r.toCase())
			}
			if g || c {
				nt++
			}
			pat[fmt.Sprintf("C:go=%v:c=%v", g, c)]++
		}
	}
	atomic.AddInt64(&j.evals, ev)
	atomic.AddInt64(&j.nontrivial, nt)
	atomic.AddInt64(&j.refDisagree, rd)
	j.mu.Lock()
	for k, n := range pat {
		j.patterns[k] += n
	}
	j.mu.Unlock()
}

// ------------------------------------------------------------------------------------------------
// query selection for a tag

func tagQueries(tag string, out []record) []record {
	start := len(out)
	instGuess, compGuess, hasComp := "", "", false
	if strings.HasPrefix(tag, "snap.") {
		rest := tag[len("snap."):]
		if i := strings.IndexByte(rest, '.'); i >= 0 {
			rest = rest[:i]
		}
		instGuess, compGuess, hasComp = strings.Cut(rest, "+")
	}
	other := "ab"
	if instGuess == "ab" {
		other = "ab-0"
	}
	if !refInstance(instGuess) {
		// no valid instance can equal the tag's instance field
		out = append(out, record{kind: 'U', f1: tag, f2: other})
		if hasComp && refSnapName(compGuess) {
			out = append(out, record{kind: 'T', f1: tag, f2: other, f3: compGuess})
		}
		return selfQuery(tag, out, start)
	}
	compValid := hasComp && refSnapName(compGuess)
	// matching query
	if compValid {
		out = append(out, record{kind: 'T', f1: tag, f2: instGuess, f3: compGuess})
		otherComp := "cd"
		if compGuess == "cd" {
			otherComp = "cd-0"
		}
		out = append(out, record{kind: 'T', f1: tag, f2: instGuess, f3: otherComp}) // wrong component
		out = append(out, record{kind: 'U', f1: tag, f2: instGuess})                // component not expected
		out = append(out, record{kind: 'T', f1: tag, f2: other, f3: compGuess})     // wrong instance
	} else {
		out = append(out, record{kind: 'U', f1: tag, f2: instGuess})
		out = append(out, record{kind: 'T', f1: tag, f2: instGuess, f3: "cd"}) // component expected but absent/invalid
		out = append(out, record{kind: 'U', f1: tag, f2: other})               // wrong instance
	}
	return selfQuery(tag, out, start)
}

// selfQuery adds the query "snap-confine, do you accept this tag for exactly the instance and component
// the daemon reads off it?" whenever the daemon parses the tag at all. The arguments come from the
// daemon's own parse result, not from the harness-side reference predicates, so a daemon that reads an
// instance/component out of a tag that snap-confine would never accept it for (in any position: key
// shaped component, upper case, too short, empty, ...) is confronted with snap-confine's verdict.
func selfQuery(tag string, out []record, start int) []record {
	p, err := naming.ParseSecurityTag(tag)
	if err != nil {
		return out
	}
	q := record{kind: 'U', f1: tag, f2: p.InstanceName()}
	if h, ok := p.(naming.HookSecurityTag); ok && h.ComponentName() != "" {
		q = record{kind: 'T', f1: tag, f2: p.InstanceName(), f3: h.ComponentName()}
	}
	if strings.IndexByte(q.f2, 0) >= 0 || strings.IndexByte(q.f3, 0) >= 0 {
		return out
	}
	for _, o := range out[start:] {
		if o == q {
			return out
		}
	}
	return append(out, q)
}

// ------------------------------------------------------------------------------------------------
// spaces

var nameAlphabet = []byte{'a', 'z', '0', '9', '-', '_', '+', '.', 'A', ' ', 0xe9}

// allStringsWithPrefix appends every string prefix+x, len(x) <= extra, over the alphabet.
func allStringsWithPrefix(prefix string, extra int, alphabet []string, f func(s string)) {
	var rec func(cur string, left int)
	rec = func(cur string, left int) {
		f(cur)
		if left == 0 {
			return
		}
		for _, a := range alphabet {
			rec(cur+a, left-1)
		}
	}
	rec(prefix, extra)
}

func rep(s string, n int) string { return strings.Repeat(s, n) }

// boundaryNames: structured names around the 40 / 10 / 51 limits, one per pattern class.
func boundaryNames() []string {
	var res []string
	add := func(s ...string) { res = append(res, s...) }
	var names []string
	for _, n := range []int{1, 2, 3, 38, 39, 40, 41, 42, 50, 51, 52, 53, 60, 100, 300} {
		names = append(names, rep("a", n), rep("z", n), rep("0", n), rep("9", n-1)+"a", "a"+rep("0", n-1))
		if n >= 3 {
			names = append(names, "-"+rep("a", n-1), rep("a", n-1)+"-", "a--"+rep("a", n-3), rep("a", n-3)+"--a", rep("a", n-2)+"-a", "a-"+rep("a", n-2),
				"A"+rep("a", n-1), rep("a", n-1)+"A", rep("a", n/2)+"A"+rep("a", n-n/2-1), rep("a-", n/2)+rep("a", n%2), rep("-a", n/2)+rep("a", n%2),
				rep("0", n-2)+"-0", rep("a", n-1)+"\n", rep("a", n-1)+" ", rep("a", n-1)+"\xc3\xa9"[:1])
		}
	}
	add(names...)
	keys := []string{"", "0", "a", "z9", "A", "-", "a-b", " ", "\n"}
	for _, n := range []int{8, 9, 10, 11, 12, 13, 50} {
		keys = append(keys, rep("a", n), rep("0", n), rep("a", n-1)+"A", rep("z", n-1)+"_", rep("9", n-1)+"-")
	}
	var storeNames []string
	for _, n := range []int{1, 2, 3, 39, 40, 41, 42} {
		storeNames = append(storeNames, rep("a", n), rep("0", n), "a"+rep("0", n-1))
		if n >= 3 {
			storeNames = append(storeNames, rep("a", n-1)+"-", rep("a", n-2)+"-a", "a--"+rep("a", n-3), rep("a", n-1)+"A")
		}
	}
	for _, s := range storeNames {
		for _, k := range keys {
			add(s+"_"+k, s+"_"+k+"_", s+"__"+k, "_"+s+"_"+k)
		}
		add("_"+s, s+"_", s+"__")
	}
	// components: product of store names with themselves and with the separators
	for _, a := range storeNames {
		for _, b := range storeNames {
			add(a+"+"+b, a+"++"+b, a+"+"+b+"+", a+"+"+b+"+"+b)
		}
		add(a+"+", "+"+a, a+"+"+a+"_1", a+"_1+"+a)
	}
	return res
}

var nameSweepTemplates = []string{"?b", "a?", "a?b", "ab?", "?ab", "ab_?", "ab_1?", "?ab_1", "ab?1", "ab+?d", "ab+c?", "a?+cd", "ab?cd"}
var tagSweepTemplates = []string{"snap.ab.?", "snap.ab.a?", "snap.ab.?a", "snap.a?.app", "snap.?b.app", "snap.ab?app", "snap.ab.hook.?", "snap.ab.hook.a?", "snap.ab.hook?a",
	"snap.ab+c?.hook.a", "snap.ab+?d.hook.a", "snap.ab?cd.hook.a", "?nap.ab.app", "snap?ab.app", "snap.ab.app?", "?snap.ab.app", "snap.ab_?.app", "snap.ab_1?.app", "snap.ab?1.app"}

func sweep(templates []string) []string {
	var res []string
	for _, t := range templates {
		for b := 1; b < 256; b++ {
			res = append(res, strings.Replace(t, "?", string([]byte{byte(b)}), 1))
		}
	}
	return res
}

var tagTokens = []string{"ab", "a", "0", "-", "_", "+", ".", "A", "hook", ".hook."}

// structuredTags: product of instance x component x name part, plus tags at the length limit.
func structuredTags() []string {
	insts := []string{"ab", "a", "a-b", "a--b", "-ab", "ab-", "0a", "00", "0", "Ab", "ab_1", "ab_", "ab_A", "ab_1234567890", "ab_12345678901", "ab_1_2", "_1", "",
		rep("a", 40), rep("a", 41), rep("a", 40) + "_1234567890", rep("a", 40) + "_12345678901", rep("a", 41) + "_1"}
	comps := []string{"", "+cd", "+c", "+c-d", "+c--d", "+0", "+00", "+0c", "+Cd", "+", "+cd+ef", "+cd_1", "+" + rep("c", 40), "+" + rep("c", 41)}
	names := []string{"app", "a", "A", "0", "00", "a-b", "a--b", "-a", "a-", "a_b", "a+b", "hook", "hook.h", "hook.configure", "hook.0a", "hook.0", "hook.", "hook.A", "hook.aA", "hook.a-", "hook.-a",
		"hook.a--b", "hook.a-b", "hook.a.b", "hook.a.", "Hook.a", "hook", "hookx.a", "", ".", "app.", ".app", "app\n", "hook.a\n", "none.x", "hook.hook.a"}
	var res []string
	for _, i := range insts {
		for _, c := range comps {
			for _, n := range names {
				res = append(res, "snap."+i+c+"."+n)
			}
		}
	}
	for _, p := range []string{"snap", "snap.", "snap.ab", "snap.ab.", "snap..app", "snap.ab..app", "snapd.ab.app", "SNAP.ab.app", " snap.ab.app", "snap.ab.app ", "\nsnap.ab.app", "snap.ab.app.x.y", "snap.ab.hook.a.b"} {
		res = append(res, p)
	}
	// at the 256 limit
	for _, total := range []int{254, 255, 256, 257, 258, 300} {
		for _, pre := range []string{"snap.ab.", "snap.ab.hook.", "snap.ab+cd.hook.", "snap.ab_1.", "snap." + rep("a", 40) + "_1234567890+" + rep("c", 40) + ".hook."} {
			n := total - len(pre)
			res = append(res, pre+rep("a", n), pre+rep("a", n-1)+"-", pre+rep("a", n-1)+"A", pre+rep("a-", n/2)+rep("a", n%2))
		}
	}
	return res
}

// shapeNames is the position-independent shape alphabet: one short representative of every way a name
// can be (in)valid for SOME position of a tag. Every position of a tag (snap, instance key, component,
// app/hook name) ranges over the whole list, so each position also sees the names that are valid only for
// a different position (instance-shaped or component-shaped strings as component, key, app or hook; a key
// shaped string as snap; ...).
func shapeNames(thorough bool) []string {
	s := []string{
		"",             // empty
		"a",            // one letter: valid key/app/hook, too short for a snap or component
		"0",            // one digit: valid key/app
		"ab",           // valid in every position
		"0a",           // digit first: valid snap/component/key/app, not a hook
		"00",           // digits only: valid key/app, not a snap
		"a-b",          // inner dash: valid snap/component/app/hook, not a key
		"a--b",         // double dash
		"-ab",          // leading dash
		"ab-",          // trailing dash
		"Ab",           // upper case: valid app only
		"ab_1",         // instance-name shaped (snap_key)
		"ab_",          // empty key
		"_1",           // key without snap
		"ab+cd",        // component-ref shaped (snap+component)
		"ab.cd",        // contains the tag separator
		"hook",         // the literal
		"a123456789",   // 10 characters: the longest valid key, also a valid snap
		"a1234567890",  // 11 characters: one too long for a key, valid snap
		rep("a", 40),   // longest valid snap/component name
		rep("a", 41),   // one too long
		"ab\n",         // trailing newline ('$' handling of the regex engines)
	}
	if thorough {
		s = append(s, "A", "z9", "a-0", "0-a", "a_b", "ab_A", "ab_1_2", "ab+", "+cd", "ab+cd_1", "ab_1+cd", "hook.ab", "ab ", "ab\xe9", rep("a", 39))
	}
	return s
}

// positionalTags: every tag of the forms
//
//	snap.X.N   snap.X_K.N   snap.X+C.N   snap.X_K+C.N          (app form; "+C" is never valid there)
//	snap.X.hook.N  snap.X_K.hook.N  snap.X+C.hook.N  snap.X_K+C.hook.N  snap.X+C_K.hook.N
//
// with X, K, C and N each ranging independently over the whole shape alphabet. (A doubled '+', an
// empty component, a key after the component etc. arise from the shapes themselves.) Returns the
// distinct tags, sorted, and the number generated before de-duplication.
func positionalTags(S []string) ([]string, int64) {
	seen := map[string]struct{}{}
	var gen int64
	add := func(s string) { gen++; seen[s] = struct{}{} }
	for _, x := range S {
		for _, n := range S {
			add("snap." + x + "." + n)
			add("snap." + x + ".hook." + n)
			for _, k := range S {
				add("snap." + x + "_" + k + "." + n)
				add("snap." + x + "_" + k + ".hook." + n)
				add("snap." + x + "+" + k + "." + n)
				add("snap." + x + "+" + k + ".hook." + n)
				for _, c := range S {
					add("snap." + x + "_" + k + "+" + c + "." + n)
					add("snap." + x + "_" + k + "+" + c + ".hook." + n)
					add("snap." + x + "+" + c + "_" + k + ".hook." + n)
				}
			}
		}
	}
	res := make([]string, 0, len(seen))
	for s := range seen {
		res = append(res, s)
	}
	sort.Strings(res)
	return res, gen
}

// ------------------------------------------------------------------------------------------------
// snap.yaml derived tags

type yamlCase struct {
	SnapName string `json:"snap_name"`
	Key      string `json:"instance_key"`
	Kind     string `json:"kind"` // app | hook | yaml-app | yaml-hook | yaml-component-hook
	Name     string `json:"name"`
	Comp     string `json:"component,omitempty"`
}

func (y yamlCase) instance() string { return snap.InstanceName(y.SnapName, y.Key) }

// tag returns the security tag the daemon generates for the app/hook, if the daemon accepts it.
func (y yamlCase) tag() (tag string, comp *string, accepted bool) {
	// "a snap the daemon accepts": the direct kinds build AppInfo/HookInfo by hand, so the snap's own
	// instance name has to be put to the daemon's validator here (snap.Validate does it for the yaml kinds)
	if !strings.HasPrefix(y.Kind, "yaml-") && snap.ValidateInstanceName(y.instance()) != nil {
		return "", nil, false
	}
	switch y.Kind {
	case "app":
		info := &snap.Info{SuggestedName: y.SnapName, InstanceKey: y.Key}
		app := &snap.AppInfo{Snap: info, Name: y.Name}
		if snap.ValidateApp(app) != nil {
			return "", nil, false
		}
		return app.SecurityTag(), nil, true
	case "hook":
		info := &snap.Info{SuggestedName: y.SnapName, InstanceKey: y.Key}
		h := &snap.HookInfo{Snap: info, Name: y.Name}
		if snap.ValidateHook(h) != nil {
			return "", nil, false
		}
		return h.SecurityTag(), nil, true
	case "component-hook":
		info := &snap.Info{SuggestedName: y.SnapName, InstanceKey: y.Key}
		if naming.NewComponentRef(y.SnapName, y.Comp).Validate() != nil {
			return "", nil, false
		}
		h := &snap.HookInfo{Snap: info, Name: y.Name, Component: &snap.Component{Name: y.Comp}}
		if snap.ValidateHook(h) != nil {
			return "", nil, false
		}
		c := y.Comp
		return h.SecurityTag(), &c, true
	}
	// through snap.yaml
	q := func(s string) string { b, _ := json.Marshal(s); return string(b) }
	var sb strings.Builder
	fmt.Fprintf(&sb, "name: %s\nversion: 1\n", q(y.SnapName))
	switch y.Kind {
	case "yaml-app":
		fmt.Fprintf(&sb, "apps:\n  %s:\n    command: bin/x\n", q(y.Name))
	case "yaml-hook":
		fmt.Fprintf(&sb, "hooks:\n  %s: {}\n", q(y.Name))
	case "yaml-component-hook":
		fmt.Fprintf(&sb, "components:\n  %s:\n    type: standard\n    hooks:\n      %s: {}\n", q(y.Comp), q(y.Name))
	}
	info, err := snap.InfoFromSnapYaml([]byte(sb.String()))
	if err != nil {
		return "", nil, false
	}
	info.InstanceKey = y.Key
	if err := snap.Validate(info); err != nil {
		return "", nil, false
	}
	switch y.Kind {
	case "yaml-app":
		if a := info.Apps[y.Name]; a != nil {
			return a.SecurityTag(), nil, true
		}
	case "yaml-hook":
		if h := info.Hooks[y.Name]; h != nil {
			return h.SecurityTag(), nil, true
		}
	case "yaml-component-hook":
		if c := info.Components[y.Comp]; c != nil {
			if h := c.ExplicitHooks[y.Name]; h != nil {
				cn := y.Comp
				return h.SecurityTag(), &cn, true
			}
		}
	}
	return "", nil, false
}

func yamlCases(nameLen int, shapes []string) []yamlCase {
	var res []yamlCase
	snaps := []string{"ab", "a-0", rep("a", 40), "a", rep("a", 41), "Ab"}
	keys := []string{"", "1", "0123456789", "01234567890", "A"}
	appAlpha := []string{"a", "0", "-", "A", "_", ".", "+"}
	hookAlpha := []string{"a", "0", "-", "A", "."}
	for _, s := range snaps {
		for _, k := range keys {
			full := s == "ab" && k == "" || s == "a-0" && k == "1"
			l := nameLen
			if !full {
				l = 2
			}
			allStringsWithPrefix("", l, appAlpha, func(n string) {
				res = append(res, yamlCase{SnapName: s, Key: k, Kind: "app", Name: n})
				if full && len(n) <= 3 {
					res = append(res, yamlCase{SnapName: s, Key: k, Kind: "yaml-app", Name: n})
				}
			})
			allStringsWithPrefix("", l, hookAlpha, func(n string) {
				res = append(res, yamlCase{SnapName: s, Key: k, Kind: "hook", Name: n})
				for _, c := range []string{"cd", "c", "c-d", "0", rep("c", 40), rep("c", 41), "Cd"} {
					if full || len(n) <= 1 {
						res = append(res, yamlCase{SnapName: s, Key: k, Kind: "component-hook", Name: n, Comp: c})
					}
				}
			})
			for _, h := range []string{"configure", "default-configure", "install", "pre-refresh", "post-refresh", "remove", "prepare-device", "install-device", "gate-auto-refresh", "check-health", "fde-setup", "bogus"} {
				res = append(res, yamlCase{SnapName: s, Key: k, Kind: "yaml-hook", Name: h})
				for _, c := range []string{"cd", "c-d", "0", "c", rep("c", 40), rep("c", 41)} {
					res = append(res, yamlCase{SnapName: s, Key: k, Kind: "yaml-component-hook", Name: h, Comp: c})
				}
			}
			for _, pre := range []string{"prepare-plug-", "unprepare-slot-", "connect-plug-", "disconnect-slot-"} {
				allStringsWithPrefix(pre, 3, []string{"a", "0", "-"}, func(n string) {
					if full {
						res = append(res, yamlCase{SnapName: s, Key: k, Kind: "yaml-hook", Name: n})
					}
				})
			}
			// long names: the tag crosses snap-confine's length limit
			for _, n := range []int{190, 199, 200, 201, 240, 243, 244, 245, 250, 260} {
				res = append(res, yamlCase{SnapName: s, Key: k, Kind: "app", Name: rep("a", n)}, yamlCase{SnapName: s, Key: k, Kind: "hook", Name: rep("a", n)})
			}
		}
	}
	// position-uniform product: snap, key, component and app/hook name all range over the shape alphabet
	for _, s := range shapes {
		for _, k := range shapes {
			for _, n := range shapes {
				res = append(res, yamlCase{SnapName: s, Key: k, Kind: "app", Name: n}, yamlCase{SnapName: s, Key: k, Kind: "hook", Name: n})
				for _, c := range shapes {
					res = append(res, yamlCase{SnapName: s, Key: k, Kind: "component-hook", Name: n, Comp: c})
				}
			}
		}
		for _, k := range []string{"", "1"} {
			for _, n := range append([]string{"install", "configure"}, shapes...) {
				res = append(res, yamlCase{SnapName: s, Key: k, Kind: "yaml-app", Name: n}, yamlCase{SnapName: s, Key: k, Kind: "yaml-hook", Name: n})
				for _, c := range shapes {
					res = append(res, yamlCase{SnapName: s, Key: k, Kind: "yaml-component-hook", Name: n, Comp: c})
				}
			}
		}
	}
	return res
}

// ------------------------------------------------------------------------------------------------

func TestC24(t *testing.T) {
	r := eng.Start("C24", "exploration", 90*time.Second, 14*time.Minute)
	r.Assume("the C validators are the repository's current sources compiled with gcc -O2 and two stub headers (config.h, sys/capability.h); glibc regcomp/regexec is the regex engine snap-confine uses",
		"instances/components passed to sc_security_tag_validate are valid names (snap-confine validates them before the tag); validity for this selection is a harness-side reference predicate that decides no verdict",
		"the alphabets are covering abstractions: {a,z} lower-case range ends, {0,9} digit range ends, dash, underscore, plus, dot, upper-case, space, a high byte; every single byte value 1..255 is additionally substituted into fixed templates",
		"tags longer than snap-confine's 256-byte limit are outside the statement and are not judged")
	snap.MockSanitizePlugsSlots(func(*snap.Info) {}) // plugs/slots are not involved; the default panics outside the daemon
	bin, used := buildDriver()
	r.Info("c_sources_compiled", used)
	j := &judge{r: r, patterns: map[string]int64{}}

	if rc := r.ReplayCase(); rc != nil {
		var c caseJSON
		if err := json.Unmarshal(rc, &c); err != nil {
			fatal("replay case: %v", err)
		}
		if c.Yaml != nil {
			checkYaml(j, bin, []yamlCase{*c.Yaml}, true)
		} else {
			rec := c.toRecord()
			out := runDriver(bin, []record{rec})
			fmt.Printf("replay %c %q %q %q -> C verdict byte %q\n", rec.kind, rec.f1, rec.f2, rec.f3, out)
			if rec.kind == 'N' {
				fmt.Printf("  daemon: ValidateSnap ok=%v ValidateInstance ok=%v component ok=%v; C bits (1 sc snap, 2 sc instance, 4 sc component, 8 s-u-ns snap, 16 s-u-ns instance) = %d\n",
					naming.ValidateSnap(rec.f1) == nil, naming.ValidateInstance(rec.f1) == nil, goComponent(rec.f1), int(out[0])&0x1f)
			}
			j.judgeRecords([]record{rec}, out)
		}
		cleanup()
		r.Finish("replay")
	}

	nameLen := r.Pick(6, 7)
	tagLen := r.Pick(6, 7)
	yamlLen := r.Pick(4, 5)

	// ---- part 1: names, instance names, components: all strings over the alphabet ----
	var alpha []string
	for _, b := range nameAlphabet {
		alpha = append(alpha, string([]byte{b}))
	}
	type chunk struct {
		prefix string
		extra  int
	}
	var chunks []chunk
	chunks = append(chunks, chunk{"", 1}) // "", and the 1-char strings
	for _, a := range alpha {
		for _, b := range alpha {
			chunks = append(chunks, chunk{a + b, nameLen - 2})
		}
	}
	var nameStrings int64
	eng.ParallelFor(len(chunks), func(ci int) {
		if j.full() {
			return
		}
		if r.TimeUp() {
			r.Cap("time", "name enumeration stopped early")
			return
		}
		var recs []record
		allStringsWithPrefix(chunks[ci].prefix, chunks[ci].extra, alpha, func(s string) {
			recs = append(recs, record{kind: 'N', f1: s})
		})
		out := runDriver(bin, recs)
		j.judgeRecords(recs, out)
		atomic.AddInt64(&nameStrings, int64(len(recs)))
	})
	r.Add("name_strings_exhaustive", nameStrings)

	// ---- part 2: structured boundary names + byte sweep ----
	{
		var recs []record
		bn := boundaryNames()
		for _, s := range bn {
			recs = append(recs, record{kind: 'N', f1: s})
		}
		sw := sweep(nameSweepTemplates)
		for _, s := range sw {
			recs = append(recs, record{kind: 'N', f1: s})
		}
		// components together with an instance
		for _, comp := range []string{"ab+cd", "ab+c", "a-b+cd", "ab_1+cd", "ab", "+cd", "ab+", "ab+cd+ef", rep("a", 40) + "+" + rep("c", 40), rep("a", 41) + "+cd", "ab+" + rep("c", 41), "abc+cd", "a+cd"} {
			for _, inst := range []string{"ab", "ab_1", "a-b", "abc", "abc_0123456789", rep("a", 40), rep("a", 40) + "_0123456789"} {
				recs = append(recs, record{kind: 'C', f1: comp, f2: inst})
			}
		}
		out := runDriver(bin, recs)
		j.judgeRecords(recs, out)
		r.Add("name_strings_boundary", int64(len(bn)))
		r.Add("name_strings_byte_sweep", int64(len(sw)))
	}

	// ---- part 3: tags: "snap." + every token sequence; other prefixes with shorter sequences ----
	type tchunk struct {
		prefix string
		extra  int
	}
	var tchunks []tchunk
	tchunks = append(tchunks, tchunk{"snap.", 1})
	for _, a := range tagTokens {
		for _, b := range tagTokens {
			tchunks = append(tchunks, tchunk{"snap." + a + b, tagLen - 2})
		}
	}
	for _, p := range []string{"", "snap", "Snap.", "snap..", "snap.ab.snap.", "a.", "snapx."} {
		tchunks = append(tchunks, tchunk{p, 4})
	}
	var tagCount, tagQueriesCount int64
	eng.ParallelFor(len(tchunks), func(ci int) {
		if j.full() {
			return
		}
		if r.TimeUp() {
			r.Cap("time", "tag enumeration stopped early")
			return
		}
		var recs []record
		var n int64
		flush := func() {
			out := runDriver(bin, recs)
			j.judgeRecords(recs, out)
			atomic.AddInt64(&tagQueriesCount, int64(len(recs)))
			recs = recs[:0]
		}
		allStringsWithPrefix(tchunks[ci].prefix, tchunks[ci].extra, tagTokens, func(s string) {
			n++
			recs = tagQueries(s, recs)
			if len(recs) > 200000 {
				flush()
			}
		})
		flush()
		atomic.AddInt64(&tagCount, n)
	})
	r.Add("tags_token_sequences", tagCount)
	r.Add("tag_queries_token_sequences", tagQueriesCount)

	// ---- part 3b: position-uniform product: every position of a tag ranges over the shape alphabet ----
	shapes := shapeNames(r.Thorough())
	{
		pt, gen := positionalTags(shapes)
		const per = 4000
		nch := (len(pt) + per - 1) / per
		var q, parsed int64
		eng.ParallelFor(nch, func(ci int) {
			if j.full() {
				return
			}
			if r.TimeUp() {
				r.Cap("time", "positional tag product stopped early")
				return
			}
			hi := (ci + 1) * per
			if hi > len(pt) {
				hi = len(pt)
			}
			var recs []record
			var np int64
			for _, tg := range pt[ci*per : hi] {
				if _, err := naming.ParseSecurityTag(tg); err == nil {
					np++
				}
				recs = tagQueries(tg, recs)
			}
			out := runDriver(bin, recs)
			j.judgeRecords(recs, out)
			atomic.AddInt64(&q, int64(len(recs)))
			atomic.AddInt64(&parsed, np)
		})
		r.Add("tags_positional_generated", gen)
		r.Add("tags_positional_distinct", int64(len(pt)))
		r.Add("tags_positional_parsed_by_daemon", parsed)
		r.Add("tag_queries_positional", q)
	}

	// ---- part 4: structured tags + byte sweep ----
	{
		var recs []record
		st := structuredTags()
		sw := sweep(tagSweepTemplates)
		validInsts := []string{"ab", "a-b", "0a", "ab_1", "ab_1234567890", rep("a", 40), rep("a", 40) + "_1234567890"}
		validComps := []string{"cd", "c-d", "0c", rep("c", 40)}
		for _, tg := range append(st, sw...) {
			recs = tagQueries(tg, recs)
		}
		for _, tg := range st {
			for _, i := range validInsts {
				recs = append(recs, record{kind: 'U', f1: tg, f2: i})
				for _, c := range validComps {
					recs = append(recs, record{kind: 'T', f1: tg, f2: i, f3: c})
				}
			}
		}
		out := runDriver(bin, recs)
		j.judgeRecords(recs, out)
		r.Add("tags_structured", int64(len(st)))
		r.Add("tags_byte_sweep", int64(len(sw)))
		r.Add("tag_queries_structured", int64(len(recs)))
	}

	// ---- part 5: tags generated by the daemon for accepted apps/hooks ----
	yc := yamlCases(yamlLen, shapes)
	checkYaml(j, bin, yc, false)

	r.Add("evaluations", j.evals)
	r.Add("distinct_nontrivial", j.nontrivial)
	if j.suppressed > 0 {
		r.Add("violations_suppressed_after_60", j.suppressed)
	}
	r.Info("verdict_patterns", j.patterns)
	for k := range j.patterns {
		r.Distinct("verdict_pattern", k)
	}
	r.Info("reference_predicate_disagreements_with_daemon", j.refDisagree)
	r.Info("bounds", map[string]interface{}{"name_alphabet": fmt.Sprintf("%q", nameAlphabet), "name_max_len": nameLen, "shape_alphabet": fmt.Sprintf("%q", shapes), "tag_tokens": tagTokens, "tag_max_tokens": tagLen, "yaml_name_max_len": yamlLen, "tag_length_limit": tagMaxLen})
	r.Sample(record{kind: 'N', f1: "a-z_09"}.toCase())
	r.Sample(record{kind: 'T', f1: "snap.ab_0+ab.hook.a", f2: "ab_0", f3: "ab"}.toCase())
	r.Sample(record{kind: 'U', f1: "snap.ab.hook", f2: "ab"}.toCase())
	cleanup()
	r.Finish("every string over the name alphabet up to name_max_len (3 daemon + 5 C verdicts each), boundary-length pattern classes, every byte value in fixed templates; every token sequence after 'snap.' up to tag_max_tokens with matching / wrong-instance / wrong-component queries; structured tag product; every daemon-accepted app/hook name over its alphabet -> generated tag must be accepted. distinct_nontrivial = records accepted by at least one implementation")
}

// checkYaml: every app/hook the daemon accepts must yield a tag snap-confine accepts (within its length limit),
// and the daemon's own parser must read the same instance/component back.
func checkYaml(j *judge, bin string, ycs []yamlCase, verbose bool) {
	type pend struct {
		y    yamlCase
		rec  record
		comp *string
	}
	var accepted, beyond int64
	results := make([][]pend, 64)
	eng.ParallelFor(64, func(k int) {
		for i := k; i < len(ycs); i += 64 {
			y := ycs[i]
			tag, comp, ok := y.tag()
			if verbose {
				fmt.Printf("replay yaml case %+v: daemon accepted=%v tag=%q\n", y, ok, tag)
			}
			if !ok {
				continue
			}
			atomic.AddInt64(&accepted, 1)
			if len(tag) > tagMaxLen {
				atomic.AddInt64(&beyond, 1)
				continue
			}
			rec := record{kind: 'U', f1: tag, f2: y.instance()}
			if comp != nil {
				rec = record{kind: 'T', f1: tag, f2: y.instance(), f3: *comp}
			}
			results[k] = append(results[k], pend{y, rec, comp})
		}
	})
	var all []pend
	var recs []record
	for _, l := range results {
		for _, p := range l {
			all = append(all, p)
			recs = append(recs, p.rec)
		}
	}
	out := runDriver(bin, recs)
	var nt int64
	for i, p := range all {
		y := p.y
		cj := caseJSON{Kind: "Y", Text: fmt.Sprintf("%+v -> %q", y, p.rec.f1), Yaml: &y}
		if out[i] != '1' {
			j.violation(fmt.Sprintf("generated-tag:%s:%q:%q:%q:%q", y.Kind, y.SnapName, y.Key, y.Comp, y.Name), fmt.Sprintf("the daemon accepts %s %q of snap %q (component %q) and generates tag %q, which snap-confine rejects for instance %q", y.Kind, y.Name, y.instance(), y.Comp, p.rec.f1, y.instance()), cj)
		}
		if !goTag(p.rec.f1, y.instance(), p.comp) {
			j.violation(fmt.Sprintf("generated-tag-unparsable:%s:%q:%q:%q:%q", y.Kind, y.SnapName, y.Key, y.Comp, y.Name), fmt.Sprintf("the daemon generates tag %q for %s %q of %q but ParseSecurityTag does not read it back as that instance/component", p.rec.f1, y.Kind, y.Name, y.instance()), cj)
		}
		if verbose {
			fmt.Printf("  snap-confine verdict for (%q, %q): %c\n", p.rec.f1, p.rec.f2, out[i])
		}
		nt++
	}
	atomic.AddInt64(&j.evals, int64(len(ycs)))
	atomic.AddInt64(&j.nontrivial, nt)
	j.r.Add("generated_cases", int64(len(ycs)))
	j.r.Add("generated_accepted_by_daemon", accepted)
	j.r.Add("generated_beyond_tag_limit_not_judged", beyond)
	if len(all) > 0 {
		y := all[len(all)/2].y
		j.r.Sample(caseJSON{Kind: "Y", Text: fmt.Sprintf("%+v -> %q", y, all[len(all)/2].rec.f1), Yaml: &y})
	}
}
