// C16 — auto-refresh runs inside timer windows and is never postponed past the limit.
//
// Three exhaustive enumerations against the real timeutil code:
//
//	A. parser space: every string of up to K tokens of a colliding token alphabet: ParseSchedule must accept
//	   exactly what a reference grammar (written from the ABNF in the documentation) accepts, the parsed
//	   structure must equal the reference parse, and String() -> ParseSchedule must give the same schedule.
//	B. week-span space: every "<wday>[pos]" and "<wday>[pos]-<wday>[pos]" (7 weekdays x positions 0..5):
//	   WeekSpan.Match on every day of a multi-year range against a calendar-scanning reference.
//	C. schedule space: every timer expression built from menus of week specs and clock specs (<=2 event sets,
//	   <=2 week specs, <=2 clock specs) x every (last, now, max) of a time grid: Schedule.Next and
//	   timeutil.Next against a declarative reference ("the admissible window with the smallest start", "the
//	   limit window if it starts first", "0 when that start is in the past"), plus Includes cross-checks.
//
// timeutil's clock is a process global (MockTimeNow), so the work is fanned out over worker processes.
package c16_test

import (
	"encoding/json"
	"fmt"
	"math"
	"os"
	"regexp"
	"runtime"
	"runtime/debug"
	"sort"
	"strconv"
	"strings"
	"syscall"
	"testing"
	"time"

	"github.com/snapcore/snapd/timeutil"
	eng "github.com/snapcore/snapd/verifengine"
)

// ------------------------------------------------------------------------------------------------
// reference model (independent of timeutil; trusts only package time's calendar)
// ------------------------------------------------------------------------------------------------

type refWeek struct {
	Wd  time.Weekday
	Pos int // 0 = every week, 1..4 = nth, 5 = last
}

type refWeekSpan struct{ S, E refWeek }

// refClock: one clock spec as written. Minutes since 00:00; 1440 = "24:00".
type refClock struct {
	S, E   int
	Split  int
	Spread bool
}

type refSched struct {
	Weeks  []refWeekSpan
	Clocks []refClock
}

// refWin is a window relative to the start (00:00) of the day it belongs to, in minutes; E may exceed
// 1440 when the window runs into the following day.
type refWin struct {
	S, E   int
	Spread bool
}

var weekdays = map[string]time.Weekday{"sun": 0, "mon": 1, "tue": 2, "wed": 3, "thu": 4, "fri": 5, "sat": 6}

const wdRe = `(sun|mon|tue|wed|thu|fri|sat)`
const timeRe = `([0-9]|[01][0-9]|2[0-3]):[0-5][0-9]|24:00`

var (
	reWdaySet   = regexp.MustCompile(`^` + wdRe + `([1-5])?(?:-` + wdRe + `([1-5])?)?$`)
	reTimeSet   = regexp.MustCompile(`^(` + timeRe + `)(?:([-~])(` + timeRe + `)(?:/([0-9]+))?)?$`)
	reTimeCount = regexp.MustCompile(`^(` + timeRe + `)/([0-9]+)$`)
)

type verdict int

const (
	invalid verdict = iota
	valid
	gray // accepted by some reading of the documentation, rejected by another: not judged
)

func parseMin(s string) int {
	p := strings.SplitN(s, ":", 2)
	h, _ := strconv.Atoi(p[0])
	m, _ := strconv.Atoi(p[1])
	return h*60 + m
}

func validCount(s string) (int, bool) {
	v, err := strconv.ParseUint(s, 10, 32)
	if err != nil || v == 0 {
		return 0, false
	}
	return int(v), true
}

// refParse is the reference grammar:
//
//	eventlist = eventset *( ",," eventset )
//	eventset  = wdaylist / timelist / wdaylist "," timelist
//	wdayset   = wday / wdaynumber / wdayspan      (wdaynumber: digit 1..5, 5 = last)
//	wdayspan  = wday "-" wday / wdaynumber "-" wday / wday "-" wdaynumber
//	            / wdaynumber "-" wdaynumber with second number >= first ("deprecated": the end number is dropped
//	              unless both ends are identical)
//	timeset   = time / time ( "-" / "~" ) time [ "/" count ]      count >= 1
//	time      = 0:00 .. 23:59 (one or two hour digits) / 24:00
func refParse(s string) ([]refSched, verdict) {
	var res []refSched
	v := valid
	for _, es := range strings.Split(s, ",,") {
		var sc refSched
		seenTime := false
		for _, f := range strings.Split(es, ",") {
			if f == "" {
				return nil, invalid
			}
			if m := reWdaySet.FindStringSubmatch(f); m != nil {
				if seenTime {
					return nil, invalid
				}
				var ws refWeekSpan
				ws.S.Wd = weekdays[m[1]]
				if m[2] != "" {
					ws.S.Pos, _ = strconv.Atoi(m[2])
				}
				if m[3] == "" {
					ws.E = ws.S
				} else {
					ws.E.Wd = weekdays[m[3]]
					if m[4] != "" {
						ws.E.Pos, _ = strconv.Atoi(m[4])
					}
				}
				if ws.S.Pos != 0 && ws.E.Pos != 0 {
					if ws.E.Pos < ws.S.Pos {
						return nil, invalid
					}
					if ws.S != ws.E {
						ws.E.Pos = 0
					}
				}
				sc.Weeks = append(sc.Weeks, ws)
				continue
			}
			if m := reTimeSet.FindStringSubmatch(f); m != nil {
				seenTime = true
				c := refClock{S: parseMin(m[1])}
				c.E = c.S
				if m[3] != "" {
					c.Spread = m[3] == "~"
					c.E = parseMin(m[4])
					if m[6] != "" {
						n, ok := validCount(m[6])
						if !ok {
							return nil, invalid
						}
						c.Split = n
					}
				}
				sc.Clocks = append(sc.Clocks, c)
				continue
			}
			if m := reTimeCount.FindStringSubmatch(f); m != nil {
				// "9:00/2": a count on a single time is not in the grammar, but it is harmless
				// (the count has nothing to split); not judged.
				n, ok := validCount(m[3])
				if !ok {
					return nil, invalid
				}
				seenTime = true
				v = gray
				c := refClock{S: parseMin(m[1]), Split: n}
				c.E = c.S
				sc.Clocks = append(sc.Clocks, c)
				continue
			}
			return nil, invalid
		}
		res = append(res, sc)
	}
	return res, v
}

// windows of one clock spec relative to its day.
func (c refClock) windows() []refWin {
	if c.S == c.E {
		return []refWin{{c.S, c.S, false}} // spreading a zero-length window means nothing
	}
	l := c.E - c.S
	if l < 0 {
		l += 1440
	}
	n := c.Split
	if n < 2 {
		return []refWin{{c.S, c.S + l, c.Spread}}
	}
	var res []refWin
	for i := 0; i < n; i++ {
		// exact only when n divides l (the harness only asks for such splits in the semantic space)
		res = append(res, refWin{c.S + i*l/n, c.S + (i+1)*l/n, c.Spread})
	}
	return res
}

func (c refClock) divisible() bool {
	if c.S == c.E || c.Split < 2 {
		return true
	}
	l := c.E - c.S
	if l < 0 {
		l += 1440
	}
	return l%c.Split == 0
}

// windows: the windows the reference knows exactly (not those of unevenly split specs, see looseSpans).
func (s refSched) windows() []refWin {
	if len(s.Clocks) == 0 {
		return []refWin{{0, 0, false}} // a bare weekday means 00:00 of that day
	}
	var res []refWin
	for _, c := range s.Clocks {
		if c.divisible() {
			res = append(res, c.windows()...)
		}
	}
	return res
}

// looseSpan: a clock spec whose /N does not divide its length into whole minutes. The documentation does not
// say where exactly the sub-windows begin and end, so the reference only knows the configured span: every
// sub-window lies inside [S, E] of a matching day, there are at most N of them, and the first begins at S.
type looseSpan struct {
	S, E, N int // minutes of the day (E <= 1440: such specs are only used when they do not cross midnight)
	Spread  bool
	Name    string
}

func (s refSched) looseSpans() []looseSpan {
	var res []looseSpan
	for _, c := range s.Clocks {
		if !c.divisible() {
			res = append(res, looseSpan{S: c.S, E: c.E, N: c.Split, Spread: c.Spread, Name: fmt.Sprintf("%02d:%02d-%02d:%02d/%d", c.S/60, c.S%60, c.E/60, c.E%60, c.Split)})
		}
	}
	return res
}

// dayContained: every window starts before 24:00 and ends by 24:00 of its own day. Only for such schedules
// does the documentation fix what Includes(t) has to answer (Includes looks at the calendar day of t only).
func (s refSched) dayContained() bool {
	for _, w := range s.windows() {
		if w.S >= 1440 || w.E > 1440 {
			return false
		}
	}
	for _, l := range s.looseSpans() {
		if l.E > 1440 || l.E <= l.S {
			return false
		}
	}
	return true
}

type day int // days since 1970-01-01 UTC

func dayOf(t time.Time) day { return day(math.Floor(float64(t.Unix()) / 86400)) }
func (d day) time() time.Time {
	return time.Unix(int64(d)*86400, 0).UTC()
}

type nthKey struct {
	y   int
	m   time.Month
	wd  time.Weekday
	pos int
}

// nthCache memoises nthWeekday (the harness runs one sequential loop per process).
var nthCache = map[nthKey]day{}

// nthWeekday returns the day of the pos-th (5 = last) weekday wd in the month (y, m), by scanning the month.
func nthWeekday(y int, m time.Month, wd time.Weekday, pos int) day {
	k := nthKey{y, m, wd, pos}
	if d, ok := nthCache[k]; ok {
		return d
	}
	var hits []day
	for d := 1; d <= 31; d++ {
		t := time.Date(y, m, d, 0, 0, 0, 0, time.UTC)
		if t.Month() != m {
			break
		}
		if t.Weekday() == wd {
			hits = append(hits, dayOf(t))
		}
	}
	res := hits[len(hits)-1]
	if pos != 5 {
		res = hits[pos-1]
	}
	nthCache[k] = res
	return res
}

// match: does the week span cover day d?
func (ws refWeekSpan) match(d day) bool {
	t := d.time()
	l := (int(ws.E.Wd) - int(ws.S.Wd) + 7) % 7
	if l == 0 && ws.S != ws.E {
		l = 7 // mon1-mon: the first Monday to the following Monday
	}
	if ws.S.Pos == 0 && ws.E.Pos == 0 {
		return (int(t.Weekday())-int(ws.S.Wd)+7)%7 <= l
	}
	// the span is anchored at its numbered end; look at the anchors of the surrounding months
	for dm := -1; dm <= 1; dm++ {
		first := time.Date(t.Year(), t.Month()+time.Month(dm), 1, 0, 0, 0, 0, time.UTC)
		if ws.S.Pos != 0 {
			a := nthWeekday(first.Year(), first.Month(), ws.S.Wd, ws.S.Pos)
			if d >= a && d <= a+day(l) {
				return true
			}
		} else {
			a := nthWeekday(first.Year(), first.Month(), ws.E.Wd, ws.E.Pos)
			if d >= a-day(l) && d <= a {
				return true
			}
		}
	}
	return false
}

// model is a reference schedule with memoised day matching.
type model struct {
	sc    refSched
	wins  []refWin
	loose []looseSpan
	memo  map[day]bool
}

func newModel(sc refSched) *model {
	return &model{sc: sc, wins: sc.windows(), loose: sc.looseSpans(), memo: map[day]bool{}}
}

func minutes(d day, m int) time.Time { return d.time().Add(time.Duration(m) * time.Minute) }

// inLooseSpan: [start, end] lies inside the configured span of an unevenly split spec on a matching day.
func (m *model) inLooseSpan(start, end time.Time, spread bool) bool {
	d := dayOf(start)
	if !m.dayMatch(d) || end.Before(start) {
		return false
	}
	for _, l := range m.loose {
		if !start.Before(minutes(d, l.S)) && !end.After(minutes(d, l.E)) && (spread == l.Spread || end.Equal(start)) {
			return true
		}
	}
	return false
}

// looseUpper: the first sub-window of an unevenly split spec begins at the span start, so a span start that is
// after 'last' and not before 'now' is an admissible window start: the chosen window cannot start later.
func (m *model) looseUpper(last, now time.Time) (time.Time, bool) {
	var best time.Time
	found := false
	for _, l := range m.loose {
		for d := dayOf(now) - 1; d < dayOf(now)+800; d++ {
			if !m.dayMatch(d) {
				continue
			}
			t := minutes(d, l.S)
			if t.After(last) && !t.Before(now) {
				if !found || t.Before(best) {
					best, found = t, true
				}
				break
			}
		}
	}
	return best, found
}

func (m *model) dayMatch(d day) bool {
	if len(m.sc.Weeks) == 0 {
		return true
	}
	if v, ok := m.memo[d]; ok {
		return v
	}
	v := false
	for _, ws := range m.sc.Weeks {
		if ws.match(d) {
			v = true
			break
		}
	}
	m.memo[d] = v
	return v
}

type absWin struct {
	Start, End time.Time
	Spread     bool
}

func (m *model) dayWindows(d day) []absWin {
	if !m.dayMatch(d) {
		return nil
	}
	base := d.time()
	res := make([]absWin, 0, len(m.wins))
	for _, w := range m.wins {
		res = append(res, absWin{base.Add(time.Duration(w.S) * time.Minute), base.Add(time.Duration(w.E) * time.Minute), w.Spread})
	}
	return res
}

func admissible(w absWin, last, now time.Time) bool {
	if w.End.Before(now) {
		return false // over already
	}
	if !last.Before(w.Start) && !last.After(w.End) {
		return false // the window of the last refresh
	}
	return true
}

// next: all admissible windows with the smallest start (several when two specs start together).
func (m *model) next(last, now time.Time) []absWin {
	if len(m.wins) == 0 {
		return nil // only unevenly split specs
	}
	d0 := dayOf(now) - 3 // a window is at most 24h long and starts less than 48h after its day began
	var best []absWin
	found := day(0)
	for d := d0; d < d0+800; d++ {
		if best != nil && d > found+2 {
			return best
		}
		for _, w := range m.dayWindows(d) {
			if !admissible(w, last, now) {
				continue
			}
			switch {
			case best == nil || w.Start.Before(best[0].Start):
				best = []absWin{w}
				found = d
			case w.Start.Equal(best[0].Start):
				best = append(best, w)
			}
		}
	}
	eng.HarnessError("reference found no window within 800 days for %+v", m.sc)
	return nil
}

func (m *model) includes(t time.Time) bool {
	d := dayOf(t)
	for dd := d - 2; dd <= d; dd++ {
		for _, w := range m.dayWindows(dd) {
			end := w.End
			if end.Equal(w.Start) {
				end = end.Add(time.Minute) // "10:00" stands for [10:00, 10:01)
			}
			if !t.Before(w.Start) && t.Before(end) {
				return true
			}
		}
	}
	return false
}

// ------------------------------------------------------------------------------------------------
// comparing timeutil structures with the reference parse
// ------------------------------------------------------------------------------------------------

func fromImpl(scheds []*timeutil.Schedule) []refSched {
	var res []refSched
	for _, s := range scheds {
		var r refSched
		for _, ws := range s.WeekSpans {
			r.Weeks = append(r.Weeks, refWeekSpan{refWeek{ws.Start.Weekday, int(ws.Start.Pos)}, refWeek{ws.End.Weekday, int(ws.End.Pos)}})
		}
		for _, cs := range s.ClockSpans {
			r.Clocks = append(r.Clocks, refClock{cs.Start.Hour*60 + cs.Start.Minute, cs.End.Hour*60 + cs.End.Minute, int(cs.Split), cs.Spread})
		}
		res = append(res, r)
	}
	return res
}

// canon: the meaning of a parsed timer: week spans as they are, clock specs with the fields that cannot
// matter blanked (split and spread of a zero-length span, split 1).
func canon(ss []refSched) string {
	var b strings.Builder
	for _, s := range ss {
		b.WriteString("[")
		for _, w := range s.Weeks {
			fmt.Fprintf(&b, "%d.%d-%d.%d ", w.S.Wd, w.S.Pos, w.E.Wd, w.E.Pos)
		}
		b.WriteString("|")
		for _, c := range s.Clocks {
			if c.S == c.E {
				c.Split, c.Spread = 0, false
			}
			if c.Split == 1 {
				c.Split = 0
			}
			fmt.Fprintf(&b, "%d-%d/%d%v ", c.S, c.E, c.Split, c.Spread)
		}
		b.WriteString("]")
	}
	return b.String()
}

func joinString(scheds []*timeutil.Schedule) string {
	parts := make([]string, len(scheds))
	for i, s := range scheds {
		parts[i] = s.String()
	}
	return strings.Join(parts, ",,")
}

// checkParse: acceptance, structure and round trip of one string. Returns (key, message) of a violation.
func checkParse(s string) (key, msg string, v verdict, accepted bool) {
	ref, v := refParse(s)
	scheds, err := timeutil.ParseSchedule(s)
	accepted = err == nil
	switch {
	case v == invalid && accepted:
		return "accepts-invalid:" + s, fmt.Sprintf("ParseSchedule(%q) accepted a timer the grammar does not allow: %s", s, joinString(scheds)), v, accepted
	case v == valid && !accepted:
		return "rejects-valid:" + s, fmt.Sprintf("ParseSchedule(%q) rejected a grammatical timer: %v", s, err), v, accepted
	}
	if !accepted {
		return "", "", v, accepted
	}
	if got, want := canon(fromImpl(scheds)), canon(ref); got != want {
		return "parse-differs:" + s, fmt.Sprintf("ParseSchedule(%q) = %s, the grammar says %s", s, got, want), v, accepted
	}
	str := joinString(scheds)
	again, err := timeutil.ParseSchedule(str)
	if err != nil {
		return "roundtrip-rejected:" + s, fmt.Sprintf("ParseSchedule(%q).String() = %q which does not parse: %v", s, str, err), v, accepted
	}
	if got, want := canon(fromImpl(again)), canon(ref); got != want {
		return "roundtrip-differs:" + s, fmt.Sprintf("ParseSchedule(%q).String() = %q which parses to %s, not to the original %s", s, str, got, want), v, accepted
	}
	return "", "", v, accepted
}

// ------------------------------------------------------------------------------------------------
// cases
// ------------------------------------------------------------------------------------------------

type c16Case struct {
	Kind string `json:"kind"` // "parse" | "weekspan" | "next"
	Expr string `json:"expr"`
	Last string `json:"last,omitempty"` // RFC3339
	Now  string `json:"now,omitempty"`
	MaxH int    `json:"max_hours,omitempty"`
	Day  string `json:"day,omitempty"` // weekspan case
}

// cpuMs: CPU time (user+system) used by this process so far; wall time means little on a shared machine.
func cpuMs() int64 {
	var ru syscall.Rusage
	if syscall.Getrusage(syscall.RUSAGE_SELF, &ru) != nil {
		return 0
	}
	return (ru.Utime.Sec+ru.Stime.Sec)*1000 + int64(ru.Utime.Usec+ru.Stime.Usec)/1000
}

var theNow time.Time

func setNow(t time.Time) { theNow = t }

func fmtT(t time.Time) string { return t.UTC().Format("Mon 2006-01-02 15:04:05") }

func winStr(s, e time.Time, spread bool) string {
	sep := "-"
	if spread {
		sep = "~"
	}
	return fmtT(s) + sep + fmtT(e)
}

// exprModel: a parsed expression with the implementation's and the reference's view.
type exprModel struct {
	expr   string
	scheds []*timeutil.Schedule
	models []*model
	// whether Includes is comparable with the reference (all windows inside their own day)
	dayContained bool
}

func buildExpr(expr string) (*exprModel, string) {
	ref, v := refParse(expr)
	if v != valid {
		return nil, "menu expression is not grammatical"
	}
	scheds, err := timeutil.ParseSchedule(expr)
	if err != nil {
		return nil, "" // reported by the parse check
	}
	if len(scheds) != len(ref) {
		return nil, ""
	}
	em := &exprModel{expr: expr, scheds: scheds, dayContained: true}
	for _, r := range ref {
		for _, c := range r.Clocks {
			if c.S >= 1440 {
				return nil, "menu expression outside the semantic space (start at 24:00)"
			}
			if !c.divisible() && (c.E <= c.S || c.E > 1440) {
				return nil, "menu expression outside the semantic space (uneven split of a span crossing midnight)"
			}
		}
		em.models = append(em.models, newModel(r))
		if !r.dayContained() {
			em.dayContained = false
		}
	}
	return em, ""
}

// checkFlatten: what the statement bounds whatever the exact sub-window boundaries are: a spec split /N (not
// crossing midnight) is laid out as at most N sub-spans, the first beginning at the span start, all of them
// inside the configured span.
func (em *exprModel) checkFlatten() (string, string) {
	for i, m := range em.models {
		for k, c := range m.sc.Clocks {
			if c.Split < 2 || c.E <= c.S || c.E > 1440 {
				continue
			}
			cs := em.scheds[i].ClockSpans[k]
			subs := cs.ClockSpans()
			bad := ""
			if len(subs) == 0 || len(subs) > c.Split {
				bad = fmt.Sprintf("%d sub-spans for /%d", len(subs), c.Split)
			}
			for j, sub := range subs {
				s0, e0 := sub.Start.Hour*60+sub.Start.Minute, sub.End.Hour*60+sub.End.Minute
				if e0 == 0 && s0 > 0 {
					e0 = 1440
				}
				switch {
				case j == 0 && s0 != c.S:
					bad = fmt.Sprintf("the first sub-span begins at %s, not at the span start", sub.Start)
				case s0 < c.S || e0 > c.E || e0 < s0:
					bad = fmt.Sprintf("sub-span %s is not inside the configured span", sub)
				}
			}
			if bad != "" {
				return "flatten:" + cs.String(), fmt.Sprintf("clock spec %q: %s", cs.String(), bad)
			}
		}
	}
	return "", ""
}

// spanEdgeInstants: for every unevenly split spec, instants just before/at/after the edges of its span on nine
// consecutive days (all weekdays, a month end).
func (em *exprModel) spanEdgeInstants() []time.Time {
	var res []time.Time
	d0 := dayOf(time.Date(2018, 2, 24, 0, 0, 0, 0, time.UTC))
	for _, m := range em.models {
		for _, l := range m.loose {
			for d := d0; d < d0+9; d++ {
				for _, off := range []int{l.S - 1, l.S, l.E - 1, l.E, l.E + 1} {
					res = append(res, minutes(d, off))
				}
			}
		}
	}
	return res
}

type outcome struct {
	key, msg string
	class    string // outcome class for the vacuity guard
	byWindow bool   // the decision was made by a window of the schedule (not the limit, not overdue)
}

// checkNext evaluates every law on one (expression, last, now, max) case. The clock must be owned by the caller.
func (em *exprModel) checkNext(last, now time.Time, max time.Duration) outcome {
	setNow(now)
	limit := last.Add(max)
	var refBest []absWin
	for i, m := range em.models {
		refs := m.next(last, now)
		w := em.scheds[i].Next(last)
		if len(m.loose) > 0 {
			// --- unevenly split specs: the window must lie inside a configured span (or be an exactly known
			// window), be admissible, and not start later than the earliest start known to be admissible ---
			aw := absWin{w.Start, w.End, w.Spread}
			upper, haveUpper := m.looseUpper(last, now)
			if refs != nil && (!haveUpper || refs[0].Start.Before(upper)) {
				upper, haveUpper = refs[0].Start, true
			}
			names := make([]string, len(m.loose))
			for k, l := range m.loose {
				names[k] = l.Name
			}
			key := "uneven-split:" + strings.Join(names, ",")
			descr := fmt.Sprintf("timer %q last=%s now=%s: Schedule.Next chose %s", em.scheds[i].String(), fmtT(last), fmtT(now), winStr(w.Start, w.End, w.Spread))
			switch {
			case !windowOK(w, refs) && !m.inLooseSpan(w.Start, w.End, w.Spread):
				return outcome{key: key, msg: descr + ", which is not inside the configured span of any clock spec of the timer on a matching day"}
			case !admissible(aw, last, now):
				return outcome{key: key, msg: descr + ", which is over at 'now' or contains the last refresh"}
			case haveUpper && w.Start.After(upper):
				return outcome{key: key, msg: descr + fmt.Sprintf(", but a window of the timer starting at %s is still open at 'now' and is not the window of the last refresh", fmtT(upper))}
			}
			refs = []absWin{aw} // the laws of timeutil.Next are checked relative to this validated window
		} else
		// --- Schedule.Next: the window search ---
		if !windowOK(w, refs) {
			why := "it is not the earliest window of the timer that is still open at 'now' and is not the window of the last refresh"
			switch {
			case w.End.Before(now):
				why = "it is already over at 'now'"
			case !last.Before(w.Start) && !last.After(w.End):
				why = "it is the window the last refresh happened in"
			}
			return outcome{key: "window:" + em.minimalFailing(i, last, now), msg: fmt.Sprintf("timer %q last=%s now=%s: Schedule.Next chose %s, but %s; expected %s",
				em.scheds[i].String(), fmtT(last), fmtT(now), winStr(w.Start, w.End, w.Spread), why, winStr(refs[0].Start, refs[0].End, refs[0].Spread))}
		}
		// --- the chosen window is one of the timer's windows according to Includes ---
		if !em.scheds[i].Includes(w.Start) {
			return outcome{key: "includes-start:" + em.scheds[i].String(), msg: fmt.Sprintf("timer %q last=%s now=%s: Schedule.Next chose %s but Includes(start) is false",
				em.scheds[i].String(), fmtT(last), fmtT(now), winStr(w.Start, w.End, w.Spread))}
		}
		if refBest == nil || refs[0].Start.Before(refBest[0].Start) {
			refBest = refs
		} else if refs[0].Start.Equal(refBest[0].Start) {
			refBest = append(refBest, refs...)
		}
	}
	// --- timeutil.Next: window or limit, whichever comes first; 0 when that is in the past ---
	d := timeutil.Next(em.scheds, last, max)
	at := now.Add(d)
	desc := fmt.Sprintf("timer %q last=%s now=%s max=%s: Next=%s (attempt at %s)", em.expr, fmtT(last), fmtT(now), max, d, fmtT(at))
	if d < 0 {
		return outcome{key: "negative-delay:" + em.expr, msg: desc + ": negative delay"}
	}
	wStart := refBest[0].Start
	byLimit := !wStart.Before(limit)
	tie := wStart.Equal(limit)
	var o outcome
	switch {
	case byLimit && limit.Before(now):
		o.class = "overdue-now"
		if d != 0 {
			o.key, o.msg = "overdue:"+em.expr, desc+fmt.Sprintf(": the limit %s has passed and no window started before it; expected an immediate attempt", fmtT(limit))
		}
	case byLimit:
		o.class = "wait-for-limit"
		okLimit := d == limit.Sub(now)
		if tie && !okLimit {
			okLimit = inAny(refBest, now, d)
		}
		if !okLimit {
			o.key, o.msg = "limit:"+em.expr, desc+fmt.Sprintf(": the next window starts at %s, not before the limit %s; expected the attempt at the limit", fmtT(wStart), fmtT(limit))
		}
	case wStart.Before(now):
		o.class, o.byWindow = "inside-window-now", true
		if d != 0 {
			o.key, o.msg = "open-window:"+em.expr, desc+fmt.Sprintf(": the window %s is open now; expected an immediate attempt", winStr(refBest[0].Start, refBest[0].End, refBest[0].Spread))
		}
	default:
		o.class, o.byWindow = "wait-for-window", true
		if refBest[0].Spread {
			o.class = "wait-for-spread-window"
		}
		if !inAny(refBest, now, d) {
			o.key, o.msg = "attempt-outside:"+em.expr, desc+fmt.Sprintf(": expected the attempt in the window %s (at its start unless spread)", winStr(refBest[0].Start, refBest[0].End, refBest[0].Spread))
		}
	}
	if o.key != "" {
		return o
	}
	// --- observation named by the property: the attempt instant vs Includes() ---
	if o.byWindow && em.dayContained && !timeutil.Includes(em.scheds, at) && !at.Equal(refBest[0].End) {
		return outcome{key: "attempt-not-included:" + em.expr, msg: desc + ": Includes() says the attempt is outside every window of the timer"}
	}
	return o
}

func windowOK(w timeutil.ScheduleWindow, refs []absWin) bool {
	for _, r := range refs {
		if r.Start.Equal(w.Start) && r.End.Equal(w.End) && r.Spread == w.Spread {
			return true
		}
	}
	return false
}

// minimalFailing names the smallest part of event set i (at most one week spec, at most one clock spec) for
// which Schedule.Next still disagrees with the reference at the same (last, now); it is the canonical identity
// of a window-search violation. When the clock spec alone is fine and only the combination with a week spec
// fails, the week spec is written as "<wdayset>" (the fault is in how the clock spec is laid on matching days).
func (em *exprModel) minimalFailing(i int, last, now time.Time) string {
	sc := em.scheds[i]
	weeks, clocks := []string{""}, []string{""}
	for _, w := range sc.WeekSpans {
		weeks = append(weeks, w.String())
	}
	for _, c := range sc.ClockSpans {
		clocks = append(clocks, c.String())
	}
	fails := func(expr string) bool {
		sub, _ := buildExpr(expr)
		if sub == nil {
			return false
		}
		return !windowOK(sub.scheds[0].Next(last), sub.models[0].next(last, now))
	}
	for _, c := range clocks[1:] {
		if fails(c) {
			return c
		}
	}
	for _, w := range weeks[1:] {
		if fails(w) {
			return w
		}
	}
	for _, c := range clocks[1:] {
		for _, w := range weeks[1:] {
			if fails(w + "," + c) {
				return "<wdayset>," + c
			}
		}
	}
	return sc.String()
}

// inAny: now+d is an allowed attempt instant for one of the windows (its start; anywhere in it when spread).
func inAny(ws []absWin, now time.Time, d time.Duration) bool {
	at := now.Add(d)
	for _, w := range ws {
		if !w.Spread || w.End.Equal(w.Start) {
			if at.Equal(w.Start) {
				return true
			}
			continue
		}
		if !at.Before(w.Start) && at.Before(w.End) {
			return true
		}
	}
	return false
}

// checkIncludes compares Includes with the reference on one instant (only for day-contained expressions).
func (em *exprModel) checkIncludes(t time.Time) (string, string) {
	want, inSpan, atSpanStart, loose := false, false, false, false
	for _, m := range em.models {
		if m.includes(t) {
			want = true
		}
		if len(m.loose) > 0 {
			loose = true
			d := dayOf(t)
			if m.dayMatch(d) {
				for _, l := range m.loose {
					if !t.Before(minutes(d, l.S)) && t.Before(minutes(d, l.E)) {
						inSpan = true
					}
					if !t.Before(minutes(d, l.S)) && t.Before(minutes(d, l.S+1)) {
						atSpanStart = true
					}
				}
			}
		}
	}
	if loose {
		got := timeutil.Includes(em.scheds, t)
		switch {
		case got && !want && !inSpan:
			return "uneven-split-includes:" + em.expr, fmt.Sprintf("timer %q: Includes(%s) = true, but the instant is outside every configured span of the timer", em.expr, fmtT(t))
		case !got && (want || atSpanStart):
			return "uneven-split-includes:" + em.expr, fmt.Sprintf("timer %q: Includes(%s) = false, but a window of the timer begins there", em.expr, fmtT(t))
		}
		return "", ""
	}
	if got := timeutil.Includes(em.scheds, t); got != want {
		return "includes:" + em.expr, fmt.Sprintf("timer %q: Includes(%s) = %v, the documented meaning of the timer says %v", em.expr, fmtT(t), got, want)
	}
	return "", ""
}

// ------------------------------------------------------------------------------------------------
// spaces
// ------------------------------------------------------------------------------------------------

var parseTokens = []string{
	"mon", "fri", "mon1", "fri5", "tue6", "mon0", "xyz",
	"9:00", "09:00", "11:00", "24:00", "24:01", "25:00", "9:60", "9:5",
	"-", "~", "/", "/2", "/0", "2", "0", ",", ",,", " ",
}

func tokenString(idx, n int) string {
	var b strings.Builder
	for k := 0; k < n; k++ {
		b.WriteString(parseTokens[idx%len(parseTokens)])
		idx /= len(parseTokens)
	}
	return b.String()
}

func pow(a, b int) int {
	r := 1
	for i := 0; i < b; i++ {
		r *= a
	}
	return r
}

var wdNames = []string{"sun", "mon", "tue", "wed", "thu", "fri", "sat"}

// every single week spec and every span of two, all weekdays x positions "",1..5 (plus the invalid 0 and 6)
func allWeekSpecs() []string {
	var singles []string
	for _, w := range wdNames {
		for _, p := range []string{"", "1", "2", "3", "4", "5"} {
			singles = append(singles, w+p)
		}
	}
	res := append([]string{}, singles...)
	for _, a := range singles {
		for _, b := range singles {
			res = append(res, a+"-"+b)
		}
	}
	return res
}

// lists: the empty list, every single item, and every unordered pair of the first pairN items.
func lists(menu []string, pairN int) []string {
	res := []string{""}
	for i := range menu {
		res = append(res, menu[i])
	}
	for i := 0; i < len(menu) && i < pairN; i++ {
		for j := i + 1; j < len(menu) && j < pairN; j++ {
			res = append(res, menu[i]+","+menu[j])
		}
	}
	return res
}

func join2(a, b, sep string) string {
	switch {
	case a == "":
		return b
	case b == "":
		return a
	}
	return a + sep + b
}

type space struct {
	exprs    []string
	grid     []time.Time
	offsets  []time.Duration // now - last; -1 stands for "max"
	maxes    []time.Duration
	incGrid  []time.Time
	weekDays []day
	// longEvery: gaps now-last >= 14 d are only taken on every longEvery-th grid point
	longEvery int
}

func buildSpace(thorough bool) space {
	// (the first five of each menu are also combined in pairs in the quick tier)
	weeks := []string{"mon", "fri5", "mon-fri1", "thu4-wed", "fri-mon", "tue2", "fri", "sun", "mon1", "mon-fri", "sat1-sun1", "mon5-mon"}
	clocks := []string{"09:00", "9:00~11:00", "23:00-01:00", "22:00~02:00/2", "0:00-24:00/4", "10:00-11:00", "00:00", "23:30", "9:00-11:00", "9:00~9:03"}
	pweeks := []string{"mon", "fri5", "mon-fri1"}
	pclocks := []string{"09:00", "9:00~11:00", "23:00-01:00"}
	if thorough {
		pweeks = append(pweeks, "thu4-wed")
		pclocks = append(pclocks, "22:00~02:00/2")
		weeks = append(weeks, "wed", "sat-sun", "sun5", "wed3", "fri1-mon", "tue-mon2", "mon4-wed5", "sat5-fri")
		clocks = append(clocks, "23:59", "12:30", "9:00-9:03", "0:00~24:00", "9:00-11:00/2", "23:00-01:00/2", "12:00~18:00/3")
		pweeks = append(pweeks, "tue2", "fri-mon")
		pclocks = append(pclocks, "00:00", "0:00-24:00/4")
	}
	// splits that do not divide their span into whole minutes: the reference only bounds their sub-windows by the
	// configured span (single specs, combined with every week list; plus a few mixtures with exact specs below)
	uneven := []string{"8:00-9:00/7", "9:00~11:00/7"}
	if thorough {
		uneven = append(uneven, "6:00-7:00/9", "0:00-1:00/24", "10:00-10:10/3")
	}
	clocks = append(clocks, uneven...)
	var sp space
	// pairs of week specs / clock specs only over the first five (quick) / eight (thorough) of each menu
	pairN := 5
	if thorough {
		pairN = 8
	}
	wl, cl := lists(weeks, pairN), lists(clocks, pairN)
	for _, w := range wl {
		for _, c := range cl {
			if w == "" && c == "" {
				continue
			}
			sp.exprs = append(sp.exprs, join2(w, c, ","))
		}
	}
	for _, u := range uneven {
		sp.exprs = append(sp.exprs, u+",9:00-11:00", "mon,"+u+",23:30", u+",,fri5,09:00")
	}
	if !thorough {
		sp.exprs = append(sp.exprs, "mon,23:00-01:00/2") // in the thorough clock menu; here so that both known-finding keys are reached
	}
	var small []string
	for _, w := range lists(pweeks, 0) {
		for _, c := range lists(pclocks, 0) {
			if w == "" && c == "" {
				continue
			}
			small = append(small, join2(w, c, ","))
		}
	}
	for i := range small {
		for j := range small {
			if i != j {
				sp.exprs = append(sp.exprs, small[i]+",,"+small[j])
			}
		}
	}

	// time grid for 'last'
	addRange := func(start time.Time, days int, step time.Duration) {
		for t := start; t.Before(start.AddDate(0, 0, days)); t = t.Add(step) {
			sp.grid = append(sp.grid, t)
		}
	}
	boundary := []string{"00:00", "00:01", "02:00", "06:00", "08:59", "09:00", "09:01", "09:03", "10:00", "11:00", "11:01", "22:00", "23:00", "23:30", "23:31", "23:59"}
	addBoundary := func(start time.Time, days int) {
		for d := 0; d < days; d++ {
			for _, b := range boundary {
				sp.grid = append(sp.grid, start.AddDate(0, 0, d).Add(time.Duration(parseMin(b))*time.Minute))
			}
		}
	}
	// 2018: Jan 31 is a Wednesday, February has 28 days; 70 days cross two month ends
	if !thorough {
		addRange(time.Date(2018, 1, 20, 0, 0, 0, 0, time.UTC), 70, 17*time.Hour+23*time.Minute)
		addBoundary(time.Date(2018, 2, 27, 0, 0, 0, 0, time.UTC), 3)
	} else {
		addRange(time.Date(2018, 1, 20, 0, 0, 0, 0, time.UTC), 70, 6*time.Hour+37*time.Minute)
		addBoundary(time.Date(2018, 2, 24, 0, 0, 0, 0, time.UTC), 9)
		// leap February, year end
		addRange(time.Date(2020, 2, 15, 0, 0, 30, 0, time.UTC), 30, 6*time.Hour+37*time.Minute)
		addRange(time.Date(2019, 12, 20, 0, 0, 0, 0, time.UTC), 25, 6*time.Hour+37*time.Minute)
	}
	sp.longEvery = 1
	if !thorough {
		sp.longEvery = 3
	}
	sp.offsets = []time.Duration{0, time.Minute, 24 * time.Hour, 40 * 24 * time.Hour, -1}
	sp.maxes = []time.Duration{24 * time.Hour, 14 * 24 * time.Hour, 95 * 24 * time.Hour}

	// instants for the Includes comparison: the grid itself plus 30 s past it (minute granularity)
	for _, t := range sp.grid {
		sp.incGrid = append(sp.incGrid, t, t.Add(30*time.Second))
	}
	// days for the week-span comparison
	d0 := dayOf(time.Date(2017, 12, 1, 0, 0, 0, 0, time.UTC))
	n := 500
	if thorough {
		n = 1600 // Dec 2017 .. Apr 2022, contains a leap February
	}
	for i := 0; i < n; i++ {
		sp.weekDays = append(sp.weekDays, d0+day(i))
	}
	return sp
}

// ------------------------------------------------------------------------------------------------
// the three enumerations
// ------------------------------------------------------------------------------------------------

type weekSpanCase struct {
	expr string
	impl timeutil.WeekSpan
	ref  refWeekSpan
}

// newWeekSpanCase returns nil when expr is not a single grammatical week spec (or is mis-parsed, which the
// parse check reports).
func newWeekSpanCase(expr string) *weekSpanCase {
	ref, v := refParse(expr)
	if v != valid || len(ref) != 1 || len(ref[0].Weeks) != 1 || len(ref[0].Clocks) != 0 {
		return nil
	}
	scheds, err := timeutil.ParseSchedule(expr)
	if err != nil || len(scheds) != 1 || len(scheds[0].WeekSpans) != 1 {
		return nil
	}
	return &weekSpanCase{expr, scheds[0].WeekSpans[0], ref[0].Weeks[0]}
}

func (wc *weekSpanCase) check(d day, clock time.Duration) (string, string) {
	t := d.time().Add(clock)
	got := wc.impl.Match(t)
	want := wc.ref.match(d)
	if got != want {
		return "weekspan:" + wc.expr, fmt.Sprintf("week spec %q: Match(%s) = %v, the calendar says %v", wc.expr, fmtT(t), got, want)
	}
	return "", ""
}

func TestC16(t *testing.T) {
	r := eng.Start("C16", "exploration", 100*time.Second, 14*time.Minute)
	r.Assume(
		"reference grammar = the ABNF in the ParseSchedule documentation, with one- or two-digit hours, 24:00, and the deprecated wdaynumber-wdaynumber form (second number dropped); a count on a single time (\"9:00/2\") is not judged",
		"reference meaning of a timer: on every day matched by a week spec (every day when there is none) one window per clock spec [start,end], end on the following day when end<start, split /N into N equal consecutive windows counted from the start, a bare weekday = 00:00, a single time = zero-length window (Includes: one minute)",
		"reference next window = the window with the smallest start among those not over at 'now' and not containing 'last' (closed interval); limit window starts at last+max",
		"calendar arithmetic of package time (UTC only: no DST transitions are explored)",
		"spread '~': the random offset is only bounded by its window, its distribution is not examined",
	)
	restore := timeutil.MockTimeNow(func() time.Time { return theNow })
	defer restore()

	if rc := r.ReplayCase(); rc != nil {
		var c c16Case
		if err := json.Unmarshal(rc, &c); err != nil {
			eng.HarnessError("bad replay case: %v", err)
		}
		if c.Kind == "" {
			// a case recorded by the C16auto part (autoRefresh.Ensure, meta/C16auto.json): the driver hands every replay to all parts
			fmt.Println("replay: the case belongs to part C16auto, nothing to do in the timeutil part")
			r.Finish("replay")
		}
		replay(r, c)
		r.Finish("replay")
	}

	sp := buildSpace(r.Thorough())
	tokLen := r.Pick(4, 5)
	if r.Sharded(16) {
		r.Finish(rule)
	}
	if os.Getenv("VERIF_SHARD") != "" {
		runtime.GOMAXPROCS(2) // a worker is one sequential loop; 16 workers share the machine
		debug.SetGCPercent(800)
	}

	// ---- A. parser space ----
	item := 0
	var nParse, nAccepted, nGray int64
	for n := 0; n <= tokLen; n++ {
		total := pow(len(parseTokens), n)
		const chunk = 4096
		for lo := 0; lo < total; lo += chunk {
			item++
			if !r.Mine(item) {
				continue
			}
			for idx := lo; idx < lo+chunk && idx < total; idx++ {
				s := tokenString(idx, n)
				key, msg, v, acc := checkParse(s)
				nParse++
				if acc {
					nAccepted++
					r.Distinct("accepted_form", shape(s))
				}
				if v == gray {
					nGray++
				}
				if key != "" {
					r.Violation(key, msg, c16Case{Kind: "parse", Expr: s})
				}
			}
		}
	}
	r.Max("max_parse_phase_ms", int64(r.Elapsed()/time.Millisecond))
	cpuParse := cpuMs()
	r.Add("cpu_ms_parse_phase", cpuParse)
	r.Add("parse_strings", nParse)
	r.Add("parse_accepted", nAccepted)
	r.Add("parse_not_judged", nGray)

	// ---- B. week-span space ----
	var nWeek, nWeekMatch int64
	for _, expr := range allWeekSpecs() {
		item++
		if !r.Mine(item) {
			continue
		}
		if key, msg, _, _ := checkParse(expr); key != "" {
			r.Violation(key, msg, c16Case{Kind: "parse", Expr: expr})
			continue
		}
		wc := newWeekSpanCase(expr)
		if wc == nil {
			continue
		}
		r.Add("weekspan_valid_specs", 1)
		for _, d := range sp.weekDays {
			for _, clock := range []time.Duration{0, 23*time.Hour + 59*time.Minute} {
				nWeek++
				key, msg := wc.check(d, clock)
				if key != "" {
					r.Violation(key, msg, c16Case{Kind: "weekspan", Expr: expr, Day: d.time().Add(clock).Format(time.RFC3339)})
					break
				}
			}
			if wc.ref.match(d) {
				nWeekMatch++
			}
		}
	}
	r.Max("max_parse_and_weekspan_phases_ms", int64(r.Elapsed()/time.Millisecond))
	cpuWeek := cpuMs()
	r.Add("cpu_ms_weekspan_phase", cpuWeek-cpuParse)
	r.Add("weekspan_day_evaluations", nWeek)
	r.Add("weekspan_matching_days", nWeekMatch)

	// ---- C. schedule space ----
	var nNext, nNontrivial, nInc, nIncTrue int64
	capped := false
	for _, expr := range sp.exprs {
		item++
		if !r.Mine(item) {
			continue
		}
		if r.TimeUp() {
			capped = true
			break
		}
		r.NoteCurrent(expr)
		if key, msg, _, _ := checkParse(expr); key != "" {
			r.Violation(key, msg, c16Case{Kind: "parse", Expr: expr})
			continue
		}
		em, why := buildExpr(expr)
		if em == nil {
			if why != "" {
				eng.HarnessError("%s: %q", why, expr)
			}
			continue
		}
		r.Add("expressions", 1)
		failed := false
		if key, msg := em.checkFlatten(); key != "" {
			r.Violation(key, msg, c16Case{Kind: "next", Expr: expr, Last: sp.grid[0].Format(time.RFC3339), Now: sp.grid[0].Format(time.RFC3339), MaxH: 24})
			// (no 'continue': the observable laws on Next and Includes below are evaluated as well)
		}
		grid, incGrid := sp.grid, sp.incGrid
		if extra := em.spanEdgeInstants(); len(extra) > 0 {
			// expressions with unevenly split specs: also instants around the edges of those spans
			grid = append(append([]time.Time{}, grid...), extra...)
			for _, t := range extra {
				for m := 0; m <= 10; m++ {
					incGrid = append(incGrid, t.Add(time.Duration(m)*time.Minute), t.Add(time.Duration(m)*time.Minute+30*time.Second))
				}
			}
			r.Add("expressions_with_uneven_split", 1)
		}
	cases:
		for gi, last := range grid {
			for _, max := range sp.maxes {
				for _, off := range sp.offsets {
					if off < 0 {
						off = max
					} else if off == max {
						continue // same case as the "max" offset
					}
					if sp.longEvery > 1 && off >= 14*24*time.Hour && gi%sp.longEvery != 0 {
						continue // quick tier: the long (and costly: one Match per day stepped) gaps on every third grid point
					}
					now := last.Add(off)
					o := em.checkNext(last, now, max)
					nNext++
					if o.byWindow {
						nNontrivial++
					}
					r.Distinct("outcome", o.class)
					if o.key != "" {
						c := c16Case{Kind: "next", Expr: expr, Last: last.Format(time.RFC3339), Now: now.Format(time.RFC3339), MaxH: int(max / time.Hour)}
						r.Violation(o.key, o.msg, c)
						failed = true
						break cases
					}
				}
			}
		}
		if failed || !em.dayContained {
			continue
		}
		for _, t := range incGrid {
			nInc++
			key, msg := em.checkIncludes(t)
			if key != "" {
				r.Violation(key, msg, c16Case{Kind: "next", Expr: expr, Now: t.Format(time.RFC3339)})
				break
			}
			if timeutil.Includes(em.scheds, t) {
				nIncTrue++
			}
		}
	}
	if capped {
		r.Cap("time", "schedule space stopped early in at least one worker; parser and week-span spaces complete")
	}
	r.Add("cpu_ms_schedule_phase", cpuMs()-cpuWeek)
	r.Add("next_cases", nNext)
	r.Add("includes_comparisons", nInc)
	r.Add("includes_true", nIncTrue)
	r.Add("evaluations", nParse+nWeek+nNext+nInc)
	r.Add("distinct_nontrivial", nNontrivial)
	if sh, _ := r.ShardIndex(); sh == 0 {
		r.Info("bounds", map[string]int{"parse_tokens": len(parseTokens), "parse_max_tokens": tokLen, "week_specs": len(allWeekSpecs()), "week_days": len(sp.weekDays),
			"schedule_expressions": len(sp.exprs), "last_grid": len(sp.grid), "now_offsets": len(sp.offsets), "max_values": len(sp.maxes), "long_gaps_on_every_nth_grid_point": sp.longEvery, "includes_grid": len(sp.incGrid)})
		r.Sample(c16Case{Kind: "next", Expr: sp.exprs[len(sp.exprs)/2], Last: sp.grid[7].Format(time.RFC3339), Now: sp.grid[7].Add(24 * time.Hour).Format(time.RFC3339), MaxH: 14 * 24})
		r.Sample(c16Case{Kind: "next", Expr: sp.exprs[len(sp.exprs)-1], Last: sp.grid[len(sp.grid)-1].Format(time.RFC3339), Now: sp.grid[len(sp.grid)-1].Format(time.RFC3339), MaxH: 24})
		r.Sample(c16Case{Kind: "parse", Expr: tokenString(pow(len(parseTokens), 4)/3, 4)})
		r.Sample(c16Case{Kind: "weekspan", Expr: "fri4-thu", Day: "2018-08-01T00:00:00Z"})
	}
	r.Finish(rule)
}

const rule = "A: every string of <= parse_max_tokens tokens of the token alphabet (accept/reject vs reference grammar, parsed structure, String/ParseSchedule round trip); " +
	"B: every <wday>[1-5] and every span of two on every day of week_days (Match vs calendar scan); " +
	"C: every menu expression (<=2 week specs x <=2 clock specs, and two-event-set combinations of a reduced menu) x every last of the grid x now-last in {0,1min,1d,40d,max} x max in {1d,14d,95d} (quick: gaps >= 14d on every third grid point): " +
	"Schedule.Next == reference next window, Includes(start), timeutil.Next == start of the earlier of {next window, limit} or 0 when that is past, attempt inside the window when spread; " +
	"Includes == reference on the grid for expressions whose windows stay inside their day. " +
	"distinct_nontrivial = (expression,last,now,max) cases in which a window of the timer (not the limit, not an overdue limit) decided the attempt"

// shape abstracts an accepted string to its token classes (vacuity guard for the parser space).
var (
	reShapeN = regexp.MustCompile(wdRe + `[1-5]`)
	reShapeW = regexp.MustCompile(wdRe)
	reShapeT = regexp.MustCompile(timeRe)
)

func shape(s string) string {
	s = reShapeN.ReplaceAllString(s, "N")
	s = reShapeW.ReplaceAllString(s, "W")
	s = reShapeT.ReplaceAllString(s, "T")
	return s
}

func replay(r *eng.Run, c c16Case) {
	switch c.Kind {
	case "parse":
		key, msg, v, acc := checkParse(c.Expr)
		fmt.Printf("replay parse %q: reference verdict=%d accepted=%v %s %s\n", c.Expr, v, acc, key, msg)
		if key != "" {
			r.Violation(key, msg, c)
		}
	case "weekspan":
		t, err := time.Parse(time.RFC3339, c.Day)
		if err != nil {
			eng.HarnessError("bad day: %v", err)
		}
		d := dayOf(t)
		wc := newWeekSpanCase(c.Expr)
		if wc == nil {
			eng.HarnessError("not a week spec: %q", c.Expr)
		}
		key, msg := wc.check(d, t.Sub(d.time()))
		fmt.Printf("replay weekspan %q on %s: %s %s\n", c.Expr, fmtT(t), key, msg)
		if key != "" {
			r.Violation(key, msg, c)
		}
	case "next":
		if key, msg, _, _ := checkParse(c.Expr); key != "" {
			fmt.Printf("replay: %s\n", msg)
			r.Violation(key, msg, c)
			return
		}
		em, why := buildExpr(c.Expr)
		if em == nil {
			eng.HarnessError("cannot build %q: %s", c.Expr, why)
		}
		now, err := time.Parse(time.RFC3339, c.Now)
		if err != nil {
			eng.HarnessError("bad now: %v", err)
		}
		if c.Last == "" {
			key, msg := em.checkIncludes(now)
			fmt.Printf("replay includes %q at %s: %s %s\n", c.Expr, fmtT(now), key, msg)
			if key != "" {
				r.Violation(key, msg, c)
			}
			return
		}
		last, err := time.Parse(time.RFC3339, c.Last)
		if err != nil {
			eng.HarnessError("bad last: %v", err)
		}
		max := time.Duration(c.MaxH) * time.Hour
		// the verdict must not depend on the spread draw: run the case several times
		var keys []string
		for i := 0; i < 5; i++ {
			o := em.checkNext(last, now, max)
			keys = append(keys, o.key)
			if i == 0 {
				setNow(now)
				for j, s := range em.scheds {
					w := s.Next(last)
					refs := em.models[j].next(last, now)
					fmt.Printf("replay %q: Schedule.Next=%s reference=%s\n", s.String(), winStr(w.Start, w.End, w.Spread), winStr(refs[0].Start, refs[0].End, refs[0].Spread))
				}
				fmt.Printf("replay next: timeutil.Next=%s limit=%s outcome=%s %s %s\n", timeutil.Next(em.scheds, last, max), fmtT(last.Add(max)), o.class, o.key, o.msg)
				if o.key != "" {
					r.Violation(o.key, o.msg, c)
				}
			}
		}
		sort.Strings(keys)
		if keys[0] != keys[len(keys)-1] {
			eng.HarnessError("verdict of the replayed case is not stable: %v", keys)
		}
	default:
		eng.HarnessError("unknown case kind %q", c.Kind)
	}
}
