// C21 — interface connection decisions follow the declared policy rules.
//
// Declarations (plug snap-declaration, slot snap-declaration, base-declaration) are assembled from generated
// rule descriptions, candidates from generated snap.yaml; every combination within the stated menus is
// evaluated with the real interfaces/policy code (Check, CheckAutoConnect, InstallCandidate.Check) and
// compared with a reference evaluator written from the statement:
//
//	the first present rule of (plug snap's plug rule, slot snap's slot rule, base plug rule, base slot rule)
//	decides; within it a matching deny alternative refuses, otherwise one allow alternative must fully match.
//
// Layers (all exhaustive within their menus):
//
//	atoms       every constraint map made of one atom or two atoms with different keys, as the only allow / the
//	            only deny alternative of one rule at each level, x the full candidate product
//	rules       every (allow, deny) pair of alternative lists over a reduced map menu at each level x reduced
//	            candidates; plus the monotonicity law on the implementation's own answers
//	precedence  every presence/rule assignment of the 4 levels over a reduced rule menu x reduced candidates
//	install     the same three ideas for InstallCandidate.Check (snap-declaration rule, else base rule; per slot
//	            and per plug)
//	names       plug-names/slot-names atoms generated from the documented entry shapes (a|b, a|b|c, (a|b)c, a[0-9],
//	            $INTERFACE, literal; single entries and ordered two-entry lists) x candidate names generated from
//	            every entry (exact, suffix appended, prefix prepended, none) in the complete plug name x slot name
//	            product, through atoms / rules / precedence / install again; an entry matches the WHOLE name
package c21_test

import (
	"encoding/json"
	"fmt"
	"regexp"
	"sort"
	"strings"
	"sync"
	"sync/atomic"
	"testing"
	"time"

	"github.com/snapcore/snapd/asserts"
	"github.com/snapcore/snapd/interfaces"
	"github.com/snapcore/snapd/interfaces/policy"
	"github.com/snapcore/snapd/release"
	"github.com/snapcore/snapd/snap"
	eng "github.com/snapcore/snapd/verifengine"
)

const ifaceName = "iface"

// ------------------------------------------------------------------------------------------------
// candidates
// ------------------------------------------------------------------------------------------------

// cand describes a plug/slot pair and its surroundings in plain data (the reference only looks at this).
type cand struct {
	PlugType  string `json:"plug_type"`  // app | gadget
	PlugName  string `json:"plug_name"`  // iface | alt
	PlugP     string `json:"plug_p"`     // attribute p: "" (unset) | P1 | P2
	PlugC     string `json:"plug_c"`     // attribute c: x | y
	PlugIdent int    `json:"plug_ident"` // 0 = no snap-declaration, 1 = (idP1, pub-a), 2 = (idP2, pub-b)
	SlotType  string `json:"slot_type"`  // app | gadget | os | snapd
	SlotName  string `json:"slot_name"`  // iface | alt
	SlotS     string `json:"slot_s"`     // attribute s: S1 | S2   (attribute c is always x)
	SlotIdent int    `json:"slot_ident"` // 0 = none, 1 = (idS1, pub-a), 2 = (idS2, pub-b)
	Env       int    `json:"env"`        // 0 core, 1 classic ubuntu, 2 classic fedora
	Dev       int    `json:"dev"`        // 0 no model, 1 model brand-x/model-1 store1, 2 model brand-y/model-2 store2 + store assertion friendly to store1
	// installation only
	HasPlug bool `json:"has_plug,omitempty"`
	HasSlot bool `json:"has_slot,omitempty"`
}

const slotC = "x"

var (
	plugIDs  = []string{"", "plugsnapidone0000000000000000001", "plugsnapidtwo0000000000000000002"}
	slotIDs  = []string{"", "slotsnapidone0000000000000000001", "slotsnapidtwo0000000000000000002"}
	pubs     = []string{"", "pub-a", "pub-b"}
	envNames = []string{"core", "classic-ubuntu", "classic-fedora"}
)

func (c *cand) plugID() string  { return plugIDs[c.PlugIdent] }
func (c *cand) slotID() string  { return slotIDs[c.SlotIdent] }
func (c *cand) plugPub() string { return pubs[c.PlugIdent] }
func (c *cand) slotPub() string { return pubs[c.SlotIdent] }
func normType(t string) string {
	if t == "os" || t == "snapd" {
		return "core"
	}
	return t
}
func (c *cand) String() string {
	return fmt.Sprintf("plug(%s,%s,p=%s,c=%s,id%d)/slot(%s,%s,s=%s,id%d)/%s/dev%d", c.PlugType, c.PlugName, c.PlugP, c.PlugC, c.PlugIdent,
		c.SlotType, c.SlotName, c.SlotS, c.SlotIdent, envNames[c.Env], c.Dev)
}

// ------------------------------------------------------------------------------------------------
// atoms: one constraint entry with its header form and its meaning
// ------------------------------------------------------------------------------------------------

const (
	plugConn = 1 << iota // allowed in allow/deny-(auto-)connection of a plug rule
	slotConn             // ... of a slot rule
	plugInst             // allowed in allow/deny-installation of a plug rule
	slotInst             // ... of a slot rule
	anySide  = plugConn | slotConn | plugInst | slotInst
)

type atomDef struct {
	Name  string
	Key   string
	Val   func() interface{}
	Sides int
	Ref   func(c *cand) bool
}

func strList(s ...string) func() interface{} {
	return func() interface{} {
		l := make([]interface{}, len(s))
		for i := range s {
			l[i] = s[i]
		}
		return l
	}
}
func attrMap(k, v string) func() interface{} {
	return func() interface{} { return map[string]interface{}{k: v} }
}
func str(s string) func() interface{} { return func() interface{} { return s } }

func in(x string, l ...string) bool {
	for _, y := range l {
		if x == y {
			return true
		}
	}
	return false
}

var atomList = []atomDef{
	// attributes
	{"plug-p=P1", "plug-attributes", attrMap("p", "P1"), plugConn | slotConn | plugInst, func(c *cand) bool { return c.PlugP == "P1" }},
	{"plug-p=P1|P2", "plug-attributes", attrMap("p", "P1|P2"), plugConn | slotConn | plugInst, func(c *cand) bool { return in(c.PlugP, "P1", "P2") }},
	{"plug-p-missing", "plug-attributes", attrMap("p", "$MISSING"), plugConn | slotConn | plugInst, func(c *cand) bool { return c.PlugP == "" }},
	{"plug-c=$SLOT(c)", "plug-attributes", attrMap("c", "$SLOT(c)"), plugConn | slotConn, func(c *cand) bool { return c.PlugC == slotC }},
	{"slot-s=S1", "slot-attributes", attrMap("s", "S1"), plugConn | slotConn | slotInst, func(c *cand) bool { return c.SlotS == "S1" }},
	{"slot-c=$PLUG(c)", "slot-attributes", attrMap("c", "$PLUG(c)"), plugConn | slotConn, func(c *cand) bool { return c.PlugC == slotC }},
	// snap types
	{"slot-type=core", "slot-snap-type", strList("core"), plugConn | slotConn | slotInst, func(c *cand) bool { return normType(c.SlotType) == "core" }},
	{"slot-type=app,gadget", "slot-snap-type", strList("app", "gadget"), plugConn | slotConn | slotInst, func(c *cand) bool { return in(normType(c.SlotType), "app", "gadget") }},
	{"plug-type=app", "plug-snap-type", strList("app"), slotConn | plugInst, func(c *cand) bool { return normType(c.PlugType) == "app" }},
	{"plug-type=gadget,core", "plug-snap-type", strList("gadget", "core"), slotConn | plugInst, func(c *cand) bool { return in(normType(c.PlugType), "gadget", "core") }},
	// classic / core
	{"classic", "on-classic", str("true"), anySide, func(c *cand) bool { return c.Env != 0 }},
	{"not-classic", "on-classic", str("false"), anySide, func(c *cand) bool { return c.Env == 0 }},
	{"classic=ubuntu", "on-classic", strList("ubuntu"), anySide, func(c *cand) bool { return c.Env == 1 }},
	// device scope
	{"store=store1", "on-store", strList("store1"), anySide, func(c *cand) bool { return c.Dev == 1 || c.Dev == 2 /* friendly store */ }},
	{"store=store2", "on-store", strList("store2"), anySide, func(c *cand) bool { return c.Dev == 2 }},
	{"brand=x", "on-brand", strList("brand-x"), anySide, func(c *cand) bool { return c.Dev == 1 }},
	{"model=y/2", "on-model", strList("brand-y/model-2", "brand-x/model-9"), anySide, func(c *cand) bool { return c.Dev == 2 }},
	// names
	{"plug-name=$INTERFACE", "plug-names", strList("$INTERFACE"), plugConn | slotConn | plugInst, func(c *cand) bool { return c.PlugName == ifaceName }},
	{"plug-name=al.*", "plug-names", strList("al.*"), plugConn | slotConn | plugInst, func(c *cand) bool { return c.PlugName == "alt" }},
	{"slot-name=$INTERFACE", "slot-names", strList("$INTERFACE"), plugConn | slotConn | slotInst, func(c *cand) bool { return c.SlotName == ifaceName }},
	{"slot-name=alt|x", "slot-names", strList("x", "alt"), plugConn | slotConn | slotInst, func(c *cand) bool { return c.SlotName == "alt" }},
}

// idListMatches is the documented meaning of an id list: the snap's own id (never matching when the snap is
// unasserted and has none) must equal one of the entries; a "$MARKER" entry stands for the id it resolves to on
// this side, and an entry that does not resolve (unknown marker, or the other snap is unasserted) simply does
// not match - the remaining entries still count.
func idListMatches(own string, entries []string, resolve func(marker string) string) bool {
	if own == "" {
		return false
	}
	for _, e := range entries {
		if strings.HasPrefix(e, "$") {
			e = resolve(e)
			if e == "" {
				continue
			}
		}
		if e == own {
			return true
		}
	}
	return false
}

// idListAtoms: every ordered list of two different entries, then every single entry, of an entry menu.
func idListAtoms(name, key string, sides int, entries, short []string, also func(e string) []string, own func(c *cand) string, resolve func(c *cand, marker string) string) []atomDef {
	var res []atomDef
	add := func(idx ...int) {
		var es, header, ns []string
		for _, i := range idx {
			es = append(es, entries[i])
			header = append(header, entries[i])
			if also != nil {
				header = append(header, also(entries[i])...)
			}
			ns = append(ns, short[i])
		}
		res = append(res, atomDef{name + "=" + strings.Join(ns, ","), key, strList(header...), sides, func(c *cand) bool {
			return idListMatches(own(c), es, func(m string) string { return resolve(c, m) })
		}})
	}
	for i := range entries {
		for j := range entries {
			if i != j {
				add(i, j)
			}
		}
	}
	for i := range entries {
		add(i)
	}
	return res
}

func init() {
	noMarkers := func(*cand, string) string { return "" }
	// publisher-id lists: the marker of the other side is known, the marker of the own side is not
	atomList = append(atomList, idListAtoms("slot-pub", "slot-publisher-id", plugConn,
		[]string{"$PLUG_PUBLISHER_ID", "pub-b", "pub-a", "$SLOT_PUBLISHER_ID"}, []string{"$PLUG", "b", "a", "$SLOT"}, nil,
		func(c *cand) string { return c.slotPub() },
		func(c *cand, m string) string {
			if m == "$PLUG_PUBLISHER_ID" {
				return c.plugPub()
			}
			return ""
		})...)
	atomList = append(atomList, idListAtoms("plug-pub", "plug-publisher-id", slotConn,
		[]string{"$SLOT_PUBLISHER_ID", "pub-b", "pub-a", "$PLUG_PUBLISHER_ID"}, []string{"$SLOT", "b", "a", "$PLUG"}, nil,
		func(c *cand) string { return c.plugPub() },
		func(c *cand, m string) string {
			if m == "$SLOT_PUBLISHER_ID" {
				return c.slotPub()
			}
			return ""
		})...)
	// snap-id lists (literals only; an unasserted snap has no id and never matches). The snap under test in the
	// installation layers carries plugIDs[ident], hence both spellings in slot-snap-id; a slot snap never has a
	// plugIDs id, so the connection meaning is unchanged.
	atomList = append(atomList, idListAtoms("slot-id", "slot-snap-id", plugConn|slotInst,
		[]string{slotIDs[1], slotIDs[2]}, []string{"1", "2"},
		func(e string) []string {
			if e == slotIDs[1] {
				return []string{plugIDs[1]}
			}
			return []string{plugIDs[2]}
		},
		func(c *cand) string { return c.slotID() }, noMarkers)...)
	atomList = append(atomList, idListAtoms("plug-id", "plug-snap-id", slotConn|plugInst,
		[]string{plugIDs[1], plugIDs[2]}, []string{"1", "2"}, nil,
		func(c *cand) string { return c.plugID() }, noMarkers)...)
	for i := range atomList {
		if atoms[atomList[i].Name] != nil {
			panic("duplicate atom " + atomList[i].Name)
		}
		atoms[atomList[i].Name] = &atomList[i]
	}
}

var atoms = map[string]*atomDef{}

// ------------------------------------------------------------------------------------------------
// name constraints: the entry shapes of the assertion format x candidate names derived from every entry
// ------------------------------------------------------------------------------------------------

// nameEntry: one plug-names / slot-names entry. The documented meaning: the entry is a regexp (or the special
// value $INTERFACE) that must match the WHOLE plug/slot name.
type nameEntry struct {
	Short string
	Entry string            // header spelling
	Alts  []string          // names the entry spells out (for the character class: two representatives)
	Lang  func(string) bool // the language of the entry written without regexp (nil: exactly Alts); arbiter of the reference
}

var nameEntries = []nameEntry{
	{"top", "admin|debug", []string{"admin", "debug"}, nil},           // top-level alternation
	{"top3", "raw|mid|unsafe", []string{"raw", "mid", "unsafe"}, nil}, // ... with a middle alternative
	{"paren", "(in|out)put", []string{"input", "output"}, nil},        // parenthesised alternation
	{"class", "port[0-9]", []string{"port0", "port9"}, func(n string) bool { // character class
		return len(n) == 5 && n[:4] == "port" && n[4] >= '0' && n[4] <= '9'
	}},
	{"iface", "$INTERFACE", []string{ifaceName}, nil}, // special value
	{"lit", "alt", []string{"alt"}, nil},              // literal
}

// candidateNames: for every entry and every name it spells out: the exact name, a strict extension with the name
// as a prefix, a strict extension with the name as a suffix; plus a class position filled by a non-member and a
// name matching no entry at all.
func candidateNames() []string {
	seen := map[string]bool{}
	var res []string
	add := func(n string) {
		if !seen[n] {
			seen[n] = true
			res = append(res, n)
		}
	}
	for _, e := range nameEntries {
		for _, a := range e.Alts {
			add(a)
			add(a + "-x")
			add("x" + a)
		}
	}
	add("porta")
	add("zzz")
	return res
}

var nameRx = map[string]*regexp.Regexp{}

// nameTable caches the reference answer for the generated (entry, candidate name) combinations.
var nameTable = map[[2]string]bool{}

// entryMatchesWholeName is the reference meaning of one entry: $INTERFACE stands for the interface name, anything
// else is a regexp that has to match the name from its first to its last character.
func entryMatchesWholeName(entry, name string) bool {
	if entry == "$INTERFACE" {
		return name == ifaceName
	}
	if v, ok := nameTable[[2]string{entry, name}]; ok {
		return v
	}
	return nameRx[entry].MatchString(name)
}

// nameListMatches: a names constraint is a list of entries; the name has to match one of them.
func nameListMatches(entries []string, name string) bool {
	for _, e := range entries {
		if entryMatchesWholeName(e, name) {
			return true
		}
	}
	return false
}

var nameAtomList []atomDef

func nameAtomName(key string, idx ...int) string {
	var ns []string
	for _, i := range idx {
		ns = append(ns, nameEntries[i].Short)
	}
	return key + "=[" + strings.Join(ns, ",") + "]"
}

// nameAtomNames: the generated atoms of one key: every single entry (singles), every ordered list of two
// different entries (lists).
func nameAtomNames(key string) (singles, lists []string) {
	for i := range nameEntries {
		singles = append(singles, nameAtomName(key, i))
	}
	for i := range nameEntries {
		for j := range nameEntries {
			if i != j {
				lists = append(lists, nameAtomName(key, i, j))
			}
		}
	}
	return singles, lists
}

func init() {
	cnames := candidateNames()
	for _, e := range nameEntries {
		if strings.HasPrefix(e.Entry, "$") {
			continue
		}
		nameRx[e.Entry] = regexp.MustCompile("^(?:" + e.Entry + ")$")
	}
	// the reference against its arbiters on every (entry, candidate name): the language written out by hand, and
	// the leftmost-longest match of the entry compiled without any anchoring covering the whole name
	for _, e := range nameEntries {
		for _, n := range cnames {
			want := in(n, e.Alts...)
			if e.Lang != nil {
				want = e.Lang(n)
			}
			got := entryMatchesWholeName(e.Entry, n)
			if got != want {
				eng.HarnessError("name reference: entry %q on name %q: regexp says %v, the written-out language says %v", e.Entry, n, got, want)
			}
			if !strings.HasPrefix(e.Entry, "$") {
				rx := regexp.MustCompile(e.Entry)
				rx.Longest()
				loc := rx.FindStringIndex(n)
				if whole := loc != nil && loc[0] == 0 && loc[1] == len(n); whole != want {
					eng.HarnessError("name reference: entry %q on name %q: leftmost-longest match %v, the written-out language says %v", e.Entry, n, loc, want)
				}
			}
		}
	}
	for _, e := range nameEntries {
		for _, n := range cnames {
			nameTable[[2]string{e.Entry, n}] = entryMatchesWholeName(e.Entry, n)
		}
	}
	for _, k := range []struct {
		key   string
		sides int
		name  func(c *cand) string
	}{
		{"plug-names", plugConn | slotConn | plugInst, func(c *cand) string { return c.PlugName }},
		{"slot-names", plugConn | slotConn | slotInst, func(c *cand) string { return c.SlotName }},
	} {
		k := k
		add := func(idx ...int) {
			var es []string
			for _, i := range idx {
				es = append(es, nameEntries[i].Entry)
			}
			nameAtomList = append(nameAtomList, atomDef{nameAtomName(k.key, idx...), k.key, strList(es...), k.sides, func(c *cand) bool {
				return nameListMatches(es, k.name(c))
			}})
		}
		for i := range nameEntries {
			add(i)
		}
		for i := range nameEntries {
			for j := range nameEntries {
				if i != j {
					add(i, j)
				}
			}
		}
	}
	for i := range nameAtomList {
		if atoms[nameAtomList[i].Name] != nil {
			panic("duplicate atom " + nameAtomList[i].Name)
		}
		atoms[nameAtomList[i].Name] = &nameAtomList[i]
	}
}

// ------------------------------------------------------------------------------------------------
// rule descriptions
// ------------------------------------------------------------------------------------------------

type cmap []string // conjunction of atoms (names), distinct keys

// altSpec: one allow-* or deny-* entry.
type altSpec struct {
	Mode string `json:"mode,omitempty"` // "" absent | "true" | "false" | "map" (a single map, not in a list) | "list"
	Maps []cmap `json:"maps,omitempty"`
}

type ruleSpec struct {
	Allow altSpec `json:"allow"`
	Deny  altSpec `json:"deny"`
}

// fullRule: the rule of one interface in one declaration; nil parts have no subrules of that kind.
type fullRule struct {
	Conn *ruleSpec `json:"connection,omitempty"`
	Auto *ruleSpec `json:"auto_connection,omitempty"`
	Inst *ruleSpec `json:"installation,omitempty"`
}

func (m cmap) header() map[string]interface{} {
	h := map[string]interface{}{}
	for _, n := range m {
		a := atoms[n]
		if a == nil {
			eng.HarnessError("unknown atom %q", n)
		}
		if _, dup := h[a.Key]; dup {
			eng.HarnessError("two atoms with key %q in one map", a.Key)
		}
		h[a.Key] = a.Val()
	}
	return h
}

func (m cmap) matches(c *cand) bool {
	for _, n := range m {
		if !atoms[n].Ref(c) {
			return false
		}
	}
	return true
}

func (a altSpec) header() interface{} {
	switch a.Mode {
	case "true", "false":
		return a.Mode
	case "map":
		return a.Maps[0].header()
	case "list":
		l := make([]interface{}, len(a.Maps))
		for i, m := range a.Maps {
			l[i] = m.header()
		}
		return l
	}
	return nil
}

func (a altSpec) String() string {
	switch a.Mode {
	case "":
		return "-"
	case "true", "false":
		return a.Mode
	}
	parts := make([]string, len(a.Maps))
	for i, m := range a.Maps {
		parts[i] = "{" + strings.Join(m, "&") + "}"
	}
	if a.Mode == "map" {
		return parts[0]
	}
	return "[" + strings.Join(parts, ",") + "]"
}

// matches: does some alternative fully match? dflt is the documented meaning of an absent entry.
func (a altSpec) matches(c *cand, dflt bool) bool {
	switch a.Mode {
	case "":
		return dflt
	case "true":
		return true
	case "false":
		return false
	}
	for _, m := range a.Maps {
		if m.matches(c) {
			return true
		}
	}
	return false
}

func (a altSpec) constrained() bool { return a.Mode == "map" || a.Mode == "list" }

// allowed: the statement's rule semantics: a matching deny refuses, otherwise an allow alternative must match.
func (r *ruleSpec) allowed(c *cand) bool {
	if r == nil {
		return true // no subrule of this kind: allow-* defaults to true, deny-* to false
	}
	if r.Deny.matches(c, false) {
		return false
	}
	return r.Allow.matches(c, true)
}

func (r *ruleSpec) String() string {
	if r == nil {
		return "."
	}
	return "allow=" + r.Allow.String() + " deny=" + r.Deny.String()
}

func (r *ruleSpec) addTo(h map[string]interface{}, kind string) {
	if r == nil {
		return
	}
	if v := r.Allow.header(); v != nil {
		h["allow-"+kind] = v
	}
	if v := r.Deny.header(); v != nil {
		h["deny-"+kind] = v
	}
}

func (f *fullRule) header() map[string]interface{} {
	h := map[string]interface{}{}
	f.Conn.addTo(h, "connection")
	f.Auto.addTo(h, "auto-connection")
	f.Inst.addTo(h, "installation")
	return h
}

func (f *fullRule) String() string {
	if f == nil {
		return "none"
	}
	return "conn(" + f.Conn.String() + ") auto(" + f.Auto.String() + ") inst(" + f.Inst.String() + ")"
}

func (f *fullRule) kind(k string) *ruleSpec {
	switch k {
	case "connection":
		return f.Conn
	case "auto-connection":
		return f.Auto
	}
	return f.Inst
}

// declSet: the rules of interface "iface" at the four levels (nil = the declaration has no such rule).
type declSet struct {
	PS *fullRule `json:"plug_snap_plug_rule,omitempty"`
	SS *fullRule `json:"slot_snap_slot_rule,omitempty"`
	BP *fullRule `json:"base_plug_rule,omitempty"`
	BS *fullRule `json:"base_slot_rule,omitempty"`
	// installation: the snap-declaration of the snap under test may carry both
	SP *fullRule `json:"snap_plug_rule,omitempty"`
	SL *fullRule `json:"snap_slot_rule,omitempty"`
}

func (d *declSet) String() string {
	return fmt.Sprintf("PS=%v|SS=%v|BP=%v|BS=%v|SP=%v|SL=%v", d.PS, d.SS, d.BP, d.BS, d.SP, d.SL)
}

// refConnect: the statement. Returns the verdict and which level decided.
func refConnect(d *declSet, c *cand, kind string) (bool, string) {
	switch {
	case d.PS != nil && c.PlugIdent != 0:
		return d.PS.kind(kind).allowed(c), "plug-snap"
	case d.SS != nil && c.SlotIdent != 0:
		return d.SS.kind(kind).allowed(c), "slot-snap"
	case d.BP != nil:
		return d.BP.kind(kind).allowed(c), "base-plug"
	case d.BS != nil:
		return d.BS.kind(kind).allowed(c), "base-slot"
	}
	return true, "no-rule"
}

// refInstall: every slot and every plug of the snap must pass its most specific rule.
func refInstall(d *declSet, c *cand) (bool, string) {
	level := ""
	if c.HasSlot {
		switch {
		case d.SL != nil && c.SlotIdent != 0:
			level += "slot:snap "
			if !d.SL.Inst.allowed(c) {
				return false, level
			}
		case d.BS != nil:
			level += "slot:base "
			if !d.BS.Inst.allowed(c) {
				return false, level
			}
		}
	}
	if c.HasPlug {
		switch {
		case d.SP != nil && c.PlugIdent != 0:
			level += "plug:snap"
			if !d.SP.Inst.allowed(c) {
				return false, level
			}
		case d.BP != nil:
			level += "plug:base"
			if !d.BP.Inst.allowed(c) {
				return false, level
			}
		}
	}
	return true, level
}

// ------------------------------------------------------------------------------------------------
// building the real objects
// ------------------------------------------------------------------------------------------------

const ts = "2018-09-12T12:00:00Z"
const signKey = "Jv8_JiHiIzJVcO9M55pPdqSDWUvuhfDIBJUS-3VW7F_idjix7Ffn5qMxB21ZQuij"

func assemble(h map[string]interface{}) asserts.Assertion {
	h["sign-key-sha3-384"] = signKey
	h["timestamp"] = ts
	a, err := asserts.Assemble(h, nil, nil, []byte("AXNpZw=="))
	if err != nil {
		eng.HarnessError("cannot assemble %v: %v", h, err)
	}
	return a
}

func snapDecl(name, id, pub string, plugRule, slotRule *fullRule) *asserts.SnapDeclaration {
	h := map[string]interface{}{"type": "snap-declaration", "format": "6", "authority-id": "canonical", "series": "16",
		"snap-name": name, "snap-id": id, "publisher-id": pub}
	if plugRule != nil {
		h["plugs"] = map[string]interface{}{ifaceName: plugRule.header()}
	}
	if slotRule != nil {
		h["slots"] = map[string]interface{}{ifaceName: slotRule.header()}
	}
	return assemble(h).(*asserts.SnapDeclaration)
}

func baseDecl(plugRule, slotRule *fullRule) *asserts.BaseDeclaration {
	h := map[string]interface{}{"type": "base-declaration", "authority-id": "canonical", "series": "16"}
	if plugRule != nil {
		h["plugs"] = map[string]interface{}{ifaceName: plugRule.header()}
	}
	if slotRule != nil {
		h["slots"] = map[string]interface{}{ifaceName: slotRule.header()}
	}
	return assemble(h).(*asserts.BaseDeclaration)
}

type world struct {
	models []*asserts.Model
	stores []*asserts.Store
	mu     sync.Mutex
	plugs  map[string]*interfaces.ConnectedPlug
	slots  map[string]*interfaces.ConnectedSlot
	infos  map[string]*snap.Info
}

func newWorld() *world {
	w := &world{plugs: map[string]*interfaces.ConnectedPlug{}, slots: map[string]*interfaces.ConnectedSlot{}, infos: map[string]*snap.Info{}}
	model := func(brand, model, store string) *asserts.Model {
		return assemble(map[string]interface{}{"type": "model", "authority-id": brand, "series": "16", "brand-id": brand, "model": model,
			"store": store, "architecture": "armhf", "kernel": "krnl", "gadget": "gadget"}).(*asserts.Model)
	}
	w.models = []*asserts.Model{nil, model("brand-x", "model-1", "store1"), model("brand-y", "model-2", "store2")}
	st := assemble(map[string]interface{}{"type": "store", "store": "store2", "authority-id": "canonical", "operator-id": "canonical",
		"friendly-stores": []interface{}{"a-store", "store1"}}).(*asserts.Store)
	w.stores = []*asserts.Store{nil, nil, st}
	return w
}

func snapType(t string) string { return t } // snap.yaml spelling equals ours (app, gadget, os, snapd)

func snapNameFor(role, t string) string {
	switch t {
	case "os":
		return "core"
	case "snapd":
		return "snapd"
	}
	return role + "-snap"
}

func mustInfo(y string) *snap.Info {
	info, err := snap.InfoFromSnapYaml([]byte(y))
	if err != nil {
		eng.HarnessError("bad generated snap.yaml: %v\n%s", err, y)
	}
	return info
}

func plugYaml(c *cand) string {
	y := fmt.Sprintf("  %s:\n    interface: %s\n    c: %s\n", c.PlugName, ifaceName, c.PlugC)
	if c.PlugP != "" {
		y += fmt.Sprintf("    p: %s\n", c.PlugP)
	}
	return y
}

func slotYaml(c *cand) string {
	return fmt.Sprintf("  %s:\n    interface: %s\n    c: %s\n    s: %s\n", c.SlotName, ifaceName, slotC, c.SlotS)
}

func (w *world) plug(c *cand) *interfaces.ConnectedPlug {
	k := fmt.Sprintf("%s/%s/%s/%s", c.PlugType, c.PlugName, c.PlugP, c.PlugC)
	w.mu.Lock()
	defer w.mu.Unlock()
	if p := w.plugs[k]; p != nil {
		return p
	}
	info := mustInfo(fmt.Sprintf("name: %s\nversion: 1\ntype: %s\nplugs:\n%s", snapNameFor("plug", c.PlugType), snapType(c.PlugType), plugYaml(c)))
	as, err := interfaces.NewSnapAppSet(info, nil)
	if err != nil {
		eng.HarnessError("%v", err)
	}
	p := interfaces.NewConnectedPlug(info.Plugs[c.PlugName], as, nil, nil)
	w.plugs[k] = p
	return p
}

func (w *world) slot(c *cand) *interfaces.ConnectedSlot {
	k := fmt.Sprintf("%s/%s/%s", c.SlotType, c.SlotName, c.SlotS)
	w.mu.Lock()
	defer w.mu.Unlock()
	if s := w.slots[k]; s != nil {
		return s
	}
	info := mustInfo(fmt.Sprintf("name: %s\nversion: 1\ntype: %s\nslots:\n%s", snapNameFor("slot", c.SlotType), snapType(c.SlotType), slotYaml(c)))
	as, err := interfaces.NewSnapAppSet(info, nil)
	if err != nil {
		eng.HarnessError("%v", err)
	}
	s := interfaces.NewConnectedSlot(info.Slots[c.SlotName], as, nil, nil)
	w.slots[k] = s
	return s
}

// installInfo: the snap under test for installation; its type is PlugType (== SlotType).
func (w *world) installInfo(c *cand) *snap.Info {
	k := fmt.Sprintf("%s/%v/%v/%s/%s/%s/%s/%s", c.PlugType, c.HasPlug, c.HasSlot, c.PlugName, c.PlugP, c.PlugC, c.SlotName, c.SlotS)
	w.mu.Lock()
	defer w.mu.Unlock()
	if i := w.infos[k]; i != nil {
		return i
	}
	y := fmt.Sprintf("name: %s\nversion: 1\ntype: %s\n", snapNameFor("some", c.PlugType), snapType(c.PlugType))
	if c.HasPlug {
		y += "plugs:\n" + plugYaml(c)
	}
	if c.HasSlot {
		y += "slots:\n" + slotYaml(c)
	}
	info := mustInfo(y)
	w.infos[k] = info
	return info
}

// built: the assertions of one declSet (per identity).
type built struct {
	base     *asserts.BaseDeclaration
	plugDecl [3]*asserts.SnapDeclaration
	slotDecl [3]*asserts.SnapDeclaration
	instDecl [3]*asserts.SnapDeclaration
}

func build(d *declSet, install bool) *built {
	b := &built{base: baseDecl(d.BP, d.BS)}
	for i := 1; i <= 2; i++ {
		if install {
			b.instDecl[i] = snapDecl("some-snap", plugIDs[i], pubs[i], d.SP, d.SL)
		} else {
			b.plugDecl[i] = snapDecl("plug-snap", plugIDs[i], pubs[i], d.PS, nil)
			b.slotDecl[i] = snapDecl("slot-snap", slotIDs[i], pubs[i], nil, d.SS)
		}
	}
	return b
}

func setEnv(env int) {
	release.MockOnClassic(env != 0)
	id := "ubuntu-core"
	switch env {
	case 1:
		id = "ubuntu"
	case 2:
		id = "fedora"
	}
	release.MockReleaseInfo(&release.OS{ID: id})
}

// objs: the real objects of one candidate.
type objs struct {
	plug *interfaces.ConnectedPlug
	slot *interfaces.ConnectedSlot
	info *snap.Info
}

func (w *world) objsFor(c *cand, install bool) objs {
	if install {
		return objs{info: w.installInfo(c)}
	}
	return objs{plug: w.plug(c), slot: w.slot(c)}
}

// implConnect runs the real check. The process-global environment must already be c.Env.
func (w *world) implConnect(b *built, c *cand, o objs, kind string) error {
	cc := policy.ConnectCandidate{
		Plug:            o.plug,
		Slot:            o.slot,
		BaseDeclaration: b.base,
		Model:           w.models[c.Dev],
		Store:           w.stores[c.Dev],
	}
	if c.PlugIdent != 0 {
		cc.PlugSnapDeclaration = b.plugDecl[c.PlugIdent]
	}
	if c.SlotIdent != 0 {
		cc.SlotSnapDeclaration = b.slotDecl[c.SlotIdent]
	}
	if kind == "connection" {
		return cc.Check()
	}
	arity, err := cc.CheckAutoConnect()
	if err == nil && arity == nil {
		return fmt.Errorf("harness: CheckAutoConnect returned neither arity nor error")
	}
	return err
}

func (w *world) implInstall(b *built, c *cand, o objs) error {
	ic := policy.InstallCandidate{
		Snap:            o.info,
		BaseDeclaration: b.base,
		Model:           w.models[c.Dev],
		Store:           w.stores[c.Dev],
	}
	if c.PlugIdent != 0 {
		ic.SnapDeclaration = b.instDecl[c.PlugIdent]
	}
	return ic.Check()
}

// ------------------------------------------------------------------------------------------------
// cases, evaluation
// ------------------------------------------------------------------------------------------------

type c21Case struct {
	Layer string   `json:"layer"`
	Kind  string   `json:"kind"` // connection | auto-connection | installation
	Decls *declSet `json:"decls"`
	Cand  *cand    `json:"cand"`
	// monotonicity: the same declarations with one more deny alternative
	More *declSet `json:"decls_with_more_deny,omitempty"`
}

func errStr(err error) string {
	if err == nil {
		return "allowed"
	}
	return "refused (" + err.Error() + ")"
}

// evalOne compares implementation and reference on one case; returns "" or a message.
func (w *world) evalOne(b *built, d *declSet, c *cand, o objs, kind string) (msg string, allowed bool, level string) {
	var err error
	var want bool
	if kind == "installation" {
		err = w.implInstall(b, c, o)
		want, level = refInstall(d, c)
	} else {
		err = w.implConnect(b, c, o, kind)
		want, level = refConnect(d, c, kind)
	}
	if (err == nil) != want {
		exp := "refused"
		if want {
			exp = "allowed"
		}
		return fmt.Sprintf("%s of %s with %s: implementation says %s, the declared rules say %s (deciding level: %s)", kind, c, d, errStr(err), exp, level), err == nil, level
	}
	return "", want, level
}

type stats struct {
	evals, nontrivial, allowed int64
	outcomes                   map[string]struct{}
}

type runner struct {
	r       *eng.Run
	w       *world
	nviol   int64
	maxViol int64
}

func (rn *runner) full() bool { return atomic.LoadInt64(&rn.nviol) >= rn.maxViol }

// sweep evaluates declSets x cands x kinds; cands must be grouped by Env (the process global is switched
// between groups, never inside the parallel phase).
func (rn *runner) sweep(layer string, decls []*declSet, cands []cand, kinds []string, keep func(di int, ci int, kind string, allowed bool)) {
	if rn.r.TimeUp() {
		rn.r.Cap("time", "layer "+layer+" and the following ones were not run")
		return
	}
	t0 := time.Now()
	defer func() { rn.r.Add(layer+"_ms", int64(time.Since(t0)/time.Millisecond)) }()
	install := len(kinds) == 1 && kinds[0] == "installation"
	byEnv := map[int][]int{}
	for i := range cands {
		byEnv[cands[i].Env] = append(byEnv[cands[i].Env], i)
	}
	builts := make([]*built, len(decls))
	eng.ParallelFor(len(decls), func(di int) { builts[di] = build(decls[di], install) })
	prepared := make([]objs, len(cands))
	for i := range cands {
		prepared[i] = rn.w.objsFor(&cands[i], install)
	}
	var evals, nontrivial, nallowed int64
	for env := 0; env < 3; env++ {
		idx := byEnv[env]
		if len(idx) == 0 {
			continue
		}
		setEnv(env)
		eng.ParallelFor(len(decls), func(di int) {
			if rn.full() {
				return
			}
			d, b := decls[di], builts[di]
			var ev, nt, al int64
			seen := map[[3]string]struct{}{}
			reported := false
			for _, ci := range idx {
				c := &cands[ci]
				for _, kind := range kinds {
					msg, allowed, level := rn.w.evalOne(b, d, c, prepared[ci], kind)
					ev++
					verdict := "refused"
					if allowed {
						al++
						verdict = "allowed"
					}
					if decidedByConstraints(d, c, kind) {
						nt++
					}
					seen[[3]string{kind, level, verdict}] = struct{}{}
					if keep != nil {
						keep(di, ci, kind, allowed)
					}
					if msg != "" && !reported {
						reported = true // one (the first in candidate order) per declaration set and environment
						atomic.AddInt64(&rn.nviol, 1)
						rn.r.Violation(fmt.Sprintf("%s:%s:%s:%s", layer, kind, d, c), msg, c21Case{Layer: layer, Kind: kind, Decls: d, Cand: c})
					}
				}
			}
			atomic.AddInt64(&evals, ev)
			atomic.AddInt64(&nontrivial, nt)
			atomic.AddInt64(&nallowed, al)
			for k := range seen {
				rn.r.Distinct("outcome", k[0]+"/"+k[1]+"/"+k[2])
			}
		})
	}
	rn.r.Add("evaluations", evals)
	rn.r.Add("distinct_nontrivial", nontrivial)
	rn.r.Add(layer+"_evaluations", evals)
	rn.r.Add(layer+"_allowed", nallowed)
	rn.r.Add(layer+"_declaration_sets", int64(len(decls)))
}

// decidedByConstraints: the deciding rule has a real constraint map in its allow or deny entry for this kind
// (so the verdict depends on the candidate, not only on which level is present).
func decidedByConstraints(d *declSet, c *cand, kind string) bool {
	var f *fullRule
	if kind == "installation" {
		var fs []*fullRule
		if c.HasSlot {
			if d.SL != nil && c.SlotIdent != 0 {
				fs = append(fs, d.SL)
			} else if d.BS != nil {
				fs = append(fs, d.BS)
			}
		}
		if c.HasPlug {
			if d.SP != nil && c.PlugIdent != 0 {
				fs = append(fs, d.SP)
			} else if d.BP != nil {
				fs = append(fs, d.BP)
			}
		}
		for _, f := range fs {
			if f.Inst != nil && (f.Inst.Allow.constrained() || f.Inst.Deny.constrained()) {
				return true
			}
		}
		return false
	}
	switch {
	case d.PS != nil && c.PlugIdent != 0:
		f = d.PS
	case d.SS != nil && c.SlotIdent != 0:
		f = d.SS
	case d.BP != nil:
		f = d.BP
	case d.BS != nil:
		f = d.BS
	}
	if f == nil {
		return false
	}
	r := f.kind(kind)
	return r != nil && (r.Allow.constrained() || r.Deny.constrained())
}

// ------------------------------------------------------------------------------------------------
// menus
// ------------------------------------------------------------------------------------------------

func product(dims ...[]interface{}) [][]interface{} {
	res := [][]interface{}{{}}
	for _, d := range dims {
		var next [][]interface{}
		for _, p := range res {
			for _, v := range d {
				q := append(append([]interface{}{}, p...), v)
				next = append(next, q)
			}
		}
		res = next
	}
	return res
}

func S(s ...string) []interface{} {
	r := make([]interface{}, len(s))
	for i := range s {
		r[i] = s[i]
	}
	return r
}
func I(s ...int) []interface{} {
	r := make([]interface{}, len(s))
	for i := range s {
		r[i] = s[i]
	}
	return r
}

// connCands: plugType x plugName x p x c x plugIdent x slotType x slotName x s x slotIdent x env x dev
func connCands(pt, pn, pp, pc []interface{}, pi []interface{}, st, sn, ss []interface{}, si, env, dev []interface{}) []cand {
	var res []cand
	for _, v := range product(env, pt, pn, pp, pc, pi, st, sn, ss, si, dev) {
		res = append(res, cand{Env: v[0].(int), PlugType: v[1].(string), PlugName: v[2].(string), PlugP: v[3].(string), PlugC: v[4].(string), PlugIdent: v[5].(int),
			SlotType: v[6].(string), SlotName: v[7].(string), SlotS: v[8].(string), SlotIdent: v[9].(int), Dev: v[10].(int)})
	}
	return res
}

func fullConnCands() []cand {
	return connCands(S("app", "gadget"), S(ifaceName, "alt"), S("", "P1", "P2"), S("x", "y"), I(0, 1, 2),
		S("app", "gadget", "os", "snapd"), S(ifaceName, "alt"), S("S1", "S2"), I(0, 1, 2), I(0, 1, 2), I(0, 1, 2))
}

// mediumConnCands: every dimension present, with two values where the full product has three or four.
func mediumConnCands() []cand {
	return connCands(S("app", "gadget"), S(ifaceName, "alt"), S("", "P1"), S("x", "y"), I(0, 1, 2),
		S("app", "os"), S(ifaceName, "alt"), S("S1", "S2"), I(0, 1, 2), I(0, 1), I(0, 1))
}

func reducedConnCands() []cand {
	return connCands(S("app", "gadget"), S(ifaceName), S("", "P1", "P2"), S("x"), I(0, 1, 2),
		S("app", "os"), S(ifaceName), S("S1", "S2"), I(0, 1, 2), I(0, 1), I(0))
}

// installCands: one snap (type, identity) with a plug, a slot or both.
func installCands(types, pn, pp, sn, ss []interface{}, ident, env, dev []interface{}, shapes []interface{}) []cand {
	var res []cand
	for _, v := range product(env, types, shapes, pn, pp, sn, ss, ident, dev) {
		c := cand{Env: v[0].(int), PlugType: v[1].(string), SlotType: v[1].(string), PlugName: v[3].(string), PlugP: v[4].(string), PlugC: "x",
			SlotName: v[5].(string), SlotS: v[6].(string), PlugIdent: v[7].(int), SlotIdent: v[7].(int), Dev: v[8].(int)}
		switch v[2].(string) {
		case "plug":
			c.HasPlug = true
			if c.SlotName != sn[0].(string) || c.SlotS != ss[0].(string) {
				continue // slot dimensions are irrelevant without a slot
			}
		case "slot":
			c.HasSlot = true
			if c.PlugName != pn[0].(string) || c.PlugP != pp[0].(string) {
				continue
			}
		default:
			c.HasPlug, c.HasSlot = true, true
		}
		res = append(res, c)
	}
	return res
}

// mapsFor: the constraint maps over the atoms usable on a side: every single atom, and every pair of atoms with
// different keys (primaryOnly: only the first atom of each key takes part in pairs).
func mapsFor(side int, primaryOnly bool) (singles, pairs []cmap) {
	var names []string
	for _, a := range atomList {
		if a.Sides&side != 0 {
			names = append(names, a.Name)
		}
	}
	for _, n := range names {
		singles = append(singles, cmap{n})
	}
	firstOfKey := map[string]string{}
	for _, n := range names {
		if _, ok := firstOfKey[atoms[n].Key]; !ok {
			firstOfKey[atoms[n].Key] = n
		}
	}
	for i, a := range names {
		for _, b := range names[i+1:] {
			if atoms[a].Key == atoms[b].Key {
				continue
			}
			if primaryOnly && (firstOfKey[atoms[a].Key] != a || firstOfKey[atoms[b].Key] != b) {
				continue
			}
			pairs = append(pairs, cmap{a, b})
		}
	}
	return singles, pairs
}

// altOptions: absent, true, false, every single map (bare and as a one-element list), every pair i<j, and
// (thorough) every triple.
func altOptions(maps []cmap, triples bool) []altSpec {
	res := []altSpec{{}, {Mode: "true"}, {Mode: "false"}}
	for _, m := range maps {
		res = append(res, altSpec{Mode: "map", Maps: []cmap{m}}, altSpec{Mode: "list", Maps: []cmap{m}})
	}
	for i := range maps {
		for j := i + 1; j < len(maps); j++ {
			res = append(res, altSpec{Mode: "list", Maps: []cmap{maps[i], maps[j]}})
			if triples {
				for k := j + 1; k < len(maps); k++ {
					res = append(res, altSpec{Mode: "list", Maps: []cmap{maps[i], maps[j], maps[k]}})
				}
			}
		}
	}
	return res
}

func ruleSpecs(opts []altSpec) []*ruleSpec {
	var res []*ruleSpec
	for _, a := range opts {
		for _, d := range opts {
			if a.Mode == "" && d.Mode == "" {
				continue // a rule must say something
			}
			res = append(res, &ruleSpec{Allow: a, Deny: d})
		}
	}
	return res
}

// connRules pairs every spec (as the connection part) with a different spec of the same menu as the
// auto-connection part, so that a mix-up of the two kinds is visible.
func connRules(specs []*ruleSpec) []*fullRule {
	res := make([]*fullRule, len(specs))
	n := len(specs)
	for i := range specs {
		res[i] = &fullRule{Conn: specs[i], Auto: specs[(i*7+3)%n]}
	}
	return res
}

var connKinds = []string{"connection", "auto-connection"}
var instKinds = []string{"installation"}

func atLevel(level string, f *fullRule) *declSet {
	switch level {
	case "PS":
		return &declSet{PS: f}
	case "SS":
		return &declSet{SS: f}
	case "BP":
		return &declSet{BP: f}
	case "BS":
		return &declSet{BS: f}
	case "SP":
		return &declSet{SP: f}
	case "SL":
		return &declSet{SL: f}
	}
	panic(level)
}

func pick(maps []cmap, names ...string) []cmap {
	var res []cmap
	for _, n := range names {
		res = append(res, cmap(strings.Split(n, "&")))
	}
	_ = maps
	return res
}

// ------------------------------------------------------------------------------------------------
// the check
// ------------------------------------------------------------------------------------------------

const rule = "atoms: every constraint map of one atom (x the full candidate product) or two atoms with different keys (quick: x the medium product), as the only allow / only deny alternative of a rule at each level where its side applies; " +
	"rules: every (allow, deny) pair of {absent,true,false,map,[map],[map,map]} over a reduced map menu at each of the 4 levels x reduced candidates (connection and auto-connection carry different specs), plus monotonicity of the implementation's answers under added deny alternatives; " +
	"precedence: every assignment of {no rule, 6 rules} to the 4 levels x reduced candidates; install: the same for InstallCandidate.Check with the snap-declaration and base-declaration plug and slot rules; " +
	"names: plug-names/slot-names atoms generated from the entry shapes {a|b, a|b|c, (a|b)c, a[0-9], $INTERFACE, literal} (every single entry, every ordered two-entry list) x candidate names generated from every entry (each spelled-out name, the name with a suffix appended, the name with a prefix prepended, a non-member in the class position, a name matching nothing) in the complete plug name x slot name product: alone, plug-names with slot-names, with an attribute atom, in (allow, deny) alternative lists with the monotonicity law, in 4-level precedence, and the same for installation. " +
	"Oracle: first present level decides, matching deny refuses, else some allow alternative must fully match. " +
	"distinct_nontrivial = evaluations whose deciding rule has a constraint map (not a shortcut) in its allow or deny entry"

func TestC21(t *testing.T) {
	r := eng.Start("C21", "exploration", 150*time.Second, 14*time.Minute)
	r.Assume(
		"reference evaluator written from the statement: first present of (plug snap-declaration plug rule, slot snap-declaration slot rule, base plug rule, base slot rule) decides; a matching deny alternative refuses; otherwise one allow alternative must match completely; absent allow-* = true, absent deny-* = false; a snap without snap-declaration has no rules, no snap-id and no publisher",
		"a plug-names/slot-names constraint is a list of entries of which one must match; an entry is $INTERFACE (the interface name) or a regexp that must match the WHOLE name: reference = Go regexp ^(?:entry)$, cross-checked at start-up on every (entry, candidate name) against the language of the entry written out by hand and against the leftmost-longest match of the unanchored entry spanning the name",
		"atom meanings (regexp attribute match, $MISSING, $SLOT()/$PLUG(), snap type with os/snapd = core, id lists, $PLUG_PUBLISHER_ID/$SLOT_PUBLISHER_ID, on-classic incl. distro list, on-store incl. friendly stores, on-brand, on-model, plug-names/slot-names incl. $INTERFACE) are written from the assertion format documentation",
		"assertions are assembled unsigned (asserts.Assemble); signature checking is C18's subject",
		"slots-per-plug arity results are not examined",
	)
	restoreSanitize := snap.MockSanitizePlugsSlots(func(*snap.Info) {})
	defer restoreSanitize()
	rn := &runner{r: r, w: newWorld(), maxViol: 300}

	if rc := r.ReplayCase(); rc != nil {
		var c c21Case
		if err := json.Unmarshal(rc, &c); err != nil {
			eng.HarnessError("bad replay case: %v", err)
		}
		rn.replay(c)
		r.Finish("replay")
	}

	thorough := r.Thorough()
	full := fullConnCands()
	reduced := reducedConnCands()

	// ---- layer "rules" + monotonicity ----
	plugMenu := pick(nil, "plug-p=P1", "slot-s=S1", "slot-type=core", "slot-pub=$PLUG,b", "classic", "plug-p=P1&slot-s=S1")
	slotMenu := pick(nil, "plug-p=P1", "slot-s=S1", "plug-type=app", "plug-pub=$SLOT,b", "plug-id=1", "slot-s=S1&not-classic")
	if !rn.full() {
		for _, side := range []struct {
			menu   []cmap
			levels []string
		}{{plugMenu, []string{"PS", "BP"}}, {slotMenu, []string{"SS", "BS"}}} {
			specs := ruleSpecs(altOptions(side.menu, thorough))
			rules := connRules(specs)
			for _, lv := range side.levels {
				decls := make([]*declSet, len(rules))
				for i, f := range rules {
					decls[i] = atLevel(lv, f)
				}
				// remember the implementation's verdict for the connection kind of every (rule, candidate)
				verdict := make([][]bool, len(rules))
				for i := range verdict {
					verdict[i] = make([]bool, len(reduced))
				}
				rn.sweep("rules", decls, reduced, connKinds, func(di, ci int, kind string, allowed bool) {
					if kind == "connection" {
						verdict[di][ci] = allowed
					}
				})
				rn.monotonic(lv, specs, decls, verdict, reduced)
			}
		}
	}

	// ---- layer "precedence" ----
	plugR := []*ruleSpec{
		{Allow: altSpec{Mode: "true"}},
		{Allow: altSpec{Mode: "false"}},
		{Deny: altSpec{Mode: "true"}},
		{Allow: altSpec{Mode: "list", Maps: pick(nil, "plug-p=P1")}},
		{Deny: altSpec{Mode: "map", Maps: pick(nil, "slot-s=S1")}},
		{Allow: altSpec{Mode: "list", Maps: pick(nil, "slot-type=core", "plug-p=P1&slot-s=S1")}, Deny: altSpec{Mode: "list", Maps: pick(nil, "slot-pub=$PLUG")}},
	}
	slotR := []*ruleSpec{
		{Allow: altSpec{Mode: "true"}},
		{Allow: altSpec{Mode: "false"}},
		{Deny: altSpec{Mode: "true"}},
		{Allow: altSpec{Mode: "list", Maps: pick(nil, "slot-s=S1")}},
		{Deny: altSpec{Mode: "map", Maps: pick(nil, "plug-p=P1")}},
		{Allow: altSpec{Mode: "list", Maps: pick(nil, "plug-type=app", "plug-p=P1&slot-s=S1")}, Deny: altSpec{Mode: "list", Maps: pick(nil, "plug-pub=$SLOT")}},
	}
	if thorough {
		plugR = append(plugR, &ruleSpec{Allow: altSpec{Mode: "map", Maps: pick(nil, "classic")}, Deny: altSpec{Mode: "false"}},
			&ruleSpec{Allow: altSpec{Mode: "true"}, Deny: altSpec{Mode: "list", Maps: pick(nil, "plug-p-missing", "slot-id=1")}})
		slotR = append(slotR, &ruleSpec{Allow: altSpec{Mode: "map", Maps: pick(nil, "not-classic")}, Deny: altSpec{Mode: "false"}},
			&ruleSpec{Allow: altSpec{Mode: "true"}, Deny: altSpec{Mode: "list", Maps: pick(nil, "plug-p-missing", "plug-id=1")}})
	}
	if !rn.full() {
		opt := func(rs []*ruleSpec) []*fullRule {
			res := []*fullRule{nil}
			res = append(res, connRules(rs)...)
			return res
		}
		var decls []*declSet
		for _, ps := range opt(plugR) {
			for _, ss := range opt(slotR) {
				for _, bp := range opt(plugR) {
					for _, bs := range opt(slotR) {
						decls = append(decls, &declSet{PS: ps, SS: ss, BP: bp, BS: bs})
					}
				}
			}
		}
		rn.sweep("precedence", decls, reduced, connKinds, nil)
	}

	// ---- layer "install" ----
	if !rn.full() {
		instFull := installCands(S("app", "gadget", "os", "snapd"), S(ifaceName, "alt"), S("", "P1", "P2"), S(ifaceName, "alt"), S("S1", "S2"),
			I(0, 1, 2), I(0, 1, 2), I(0, 1, 2), S("plug", "slot", "both"))
		instReduced := installCands(S("app", "os"), S(ifaceName), S("", "P1", "P2"), S(ifaceName), S("S1", "S2"),
			I(0, 1, 2), I(0, 1), I(0), S("plug", "slot", "both"))
		// atoms
		var decls []*declSet
		for _, side := range []struct {
			side   int
			levels []string
		}{{plugInst, []string{"SP", "BP"}}, {slotInst, []string{"SL", "BS"}}} {
			singles, pairs := mapsFor(side.side, !thorough)
			for _, m := range append(singles, pairs...) {
				one := altSpec{Mode: "list", Maps: []cmap{m}}
				bare := altSpec{Mode: "map", Maps: []cmap{m}}
				for _, lv := range side.levels {
					decls = append(decls, atLevel(lv, &fullRule{Inst: &ruleSpec{Allow: one}}), atLevel(lv, &fullRule{Inst: &ruleSpec{Deny: bare}}))
				}
			}
		}
		rn.sweep("install_atoms", decls, instFull, instKinds, nil)

		// rules at one level (a connection part of opposite shape is present as a distractor)
		plugIM := pick(nil, "plug-p=P1", "plug-type=app", "plug-id=1", "classic", "plug-p=P1&plug-type=app")
		slotIM := pick(nil, "slot-s=S1", "slot-type=core", "slot-id=1", "not-classic", "slot-s=S1&slot-type=core")
		distractor := &ruleSpec{Allow: altSpec{Mode: "false"}, Deny: altSpec{Mode: "true"}}
		for _, side := range []struct {
			menu   []cmap
			levels []string
		}{{plugIM, []string{"SP", "BP"}}, {slotIM, []string{"SL", "BS"}}} {
			if rn.full() {
				break
			}
			specs := ruleSpecs(altOptions(side.menu, thorough))
			for _, lv := range side.levels {
				decls := make([]*declSet, len(specs))
				for i, s := range specs {
					decls[i] = atLevel(lv, &fullRule{Inst: s, Conn: distractor})
				}
				rn.sweep("install_rules", decls, instReduced, instKinds, nil)
			}
		}

		// precedence: snap-declaration plug/slot rule x base plug/slot rule
		plugIR := []*ruleSpec{
			{Allow: altSpec{Mode: "true"}}, {Allow: altSpec{Mode: "false"}}, {Deny: altSpec{Mode: "true"}},
			{Allow: altSpec{Mode: "list", Maps: pick(nil, "plug-p=P1")}},
			{Deny: altSpec{Mode: "map", Maps: pick(nil, "plug-type=app")}},
			{Allow: altSpec{Mode: "list", Maps: pick(nil, "plug-id=1", "plug-p=P1&plug-type=app")}, Deny: altSpec{Mode: "list", Maps: pick(nil, "classic")}},
		}
		slotIR := []*ruleSpec{
			{Allow: altSpec{Mode: "true"}}, {Allow: altSpec{Mode: "false"}}, {Deny: altSpec{Mode: "true"}},
			{Allow: altSpec{Mode: "list", Maps: pick(nil, "slot-s=S1")}},
			{Deny: altSpec{Mode: "map", Maps: pick(nil, "slot-type=core")}},
			{Allow: altSpec{Mode: "list", Maps: pick(nil, "slot-id=1", "slot-s=S1&slot-type=core")}, Deny: altSpec{Mode: "list", Maps: pick(nil, "not-classic")}},
		}
		opt := func(rs []*ruleSpec) []*fullRule {
			res := []*fullRule{nil}
			for _, s := range rs {
				res = append(res, &fullRule{Inst: s})
			}
			return res
		}
		decls = nil
		for _, sp := range opt(plugIR) {
			for _, sl := range opt(slotIR) {
				for _, bp := range opt(plugIR) {
					for _, bs := range opt(slotIR) {
						decls = append(decls, &declSet{SP: sp, SL: sl, BP: bp, BS: bs})
					}
				}
			}
		}
		if !rn.full() {
			rn.sweep("install_precedence", decls, instReduced, instKinds, nil)
		}
	}

	atomDecls := func(maps []cmap, levels []string) []*declSet {
		var decls []*declSet
		for _, m := range maps {
			one := altSpec{Mode: "list", Maps: []cmap{m}}
			bare := altSpec{Mode: "map", Maps: []cmap{m}}
			for _, lv := range levels {
				// as the only allow alternative (connection) / the only deny alternative (auto-connection), and the other way round
				decls = append(decls,
					atLevel(lv, &fullRule{Conn: &ruleSpec{Allow: one}, Auto: &ruleSpec{Deny: bare}}),
					atLevel(lv, &fullRule{Conn: &ruleSpec{Deny: one}, Auto: &ruleSpec{Allow: bare}}))
			}
		}
		return decls
	}

	// ---- layers "names*": the generated plug-names/slot-names atoms x the generated candidate names ----
	// Reduction: the name atoms do not go through the full 31104-candidate product; the dimensions a name
	// constraint cannot see (snap types, attribute c, environment, device scope, second publisher) are fixed, the
	// plug name x slot name product is complete, and both sides are asserted or not (so that each of the four
	// levels is reachable). The layers about rule structure (with an attribute atom, alternative lists) use the
	// same name product with both sides asserted only (every level still decides when it is the only one present).
	cnames := candidateNames()
	nameIdents := I(0, 1)
	if thorough {
		nameIdents = I(0, 1, 2)
	}
	nameCands := connCands(S("app"), S(cnames...), S(""), S("x"), nameIdents, S("app"), S(cnames...), S("S1"), nameIdents, I(0), I(0))
	allLevels := []string{"PS", "SS", "BP", "BS"}
	plugSingles, plugLists := nameAtomNames("plug-names")
	slotSingles, slotLists := nameAtomNames("slot-names")
	if !rn.full() {
		// every name atom alone; every single-entry plug-names atom together with every single-entry slot-names atom
		var maps []cmap
		for _, n := range append(append(append(append([]string{}, plugSingles...), plugLists...), slotSingles...), slotLists...) {
			maps = append(maps, cmap{n})
		}
		for _, p := range plugSingles {
			for _, s := range slotSingles {
				maps = append(maps, cmap{p, s})
			}
		}
		rn.sweep("names", atomDecls(maps, allLevels), nameCands, connKinds, nil)
	}
	if !rn.full() {
		// every single-entry name atom together with an attribute atom of the same and of the other side
		var maps []cmap
		for _, n := range append(append([]string{}, plugSingles...), slotSingles...) {
			maps = append(maps, cmap{n, "plug-p=P1"}, cmap{n, "slot-s=S1"})
		}
		cands := connCands(S("app"), S(cnames...), S("", "P1"), S("x"), I(1), S("app"), S(cnames...), S("S1", "S2"), I(1), I(0), I(0))
		rn.sweep("names_with_attribute", atomDecls(maps, allLevels), cands, connKinds, nil)
	}
	nameMenu := pick(nil, "plug-names=[top]", "slot-names=[paren]", "plug-names=[class]&slot-names=[iface]", "slot-names=[lit,top3]")
	if !rn.full() {
		// alternative lists of name maps (allow x deny) at each level, with the monotonicity law
		specs := ruleSpecs(altOptions(nameMenu, thorough))
		rules := connRules(specs)
		nameCands := connCands(S("app"), S(cnames...), S(""), S("x"), I(1), S("app"), S(cnames...), S("S1"), I(1), I(0), I(0))
		for _, lv := range allLevels {
			if rn.full() {
				break
			}
			decls := make([]*declSet, len(rules))
			for i, f := range rules {
				decls[i] = atLevel(lv, f)
			}
			verdict := make([][]bool, len(rules))
			for i := range verdict {
				verdict[i] = make([]bool, len(nameCands))
			}
			rn.sweep("name_rules", decls, nameCands, connKinds, func(di, ci int, kind string, allowed bool) {
				if kind == "connection" {
					verdict[di][ci] = allowed
				}
			})
			rn.monotonic(lv, specs, decls, verdict, nameCands)
		}
	}
	if !rn.full() {
		// precedence: {no rule, 3 name rules} at each of the four levels
		nr := []*ruleSpec{
			{Allow: altSpec{Mode: "list", Maps: pick(nil, "plug-names=[top]")}},
			{Deny: altSpec{Mode: "map", Maps: pick(nil, "slot-names=[paren]")}},
			{Allow: altSpec{Mode: "list", Maps: pick(nil, "plug-names=[class]", "slot-names=[iface]")}, Deny: altSpec{Mode: "list", Maps: pick(nil, "plug-names=[top3]&slot-names=[lit]")}},
		}
		opt := append([]*fullRule{nil}, connRules(nr)...)
		var decls []*declSet
		for _, ps := range opt {
			for _, ss := range opt {
				for _, bp := range opt {
					for _, bs := range opt {
						decls = append(decls, &declSet{PS: ps, SS: ss, BP: bp, BS: bs})
					}
				}
			}
		}
		rn.sweep("name_precedence", decls, nameCands, connKinds, nil)
	}
	var instNameCands []cand
	if !rn.full() {
		// installation: plug-names in the plug rules, slot-names in the slot rules of the snap-declaration and of
		// the base-declaration; every name atom alone and every single-entry one with an attribute atom, as the only
		// allow and as the only deny alternative; the snap has a plug, a slot or both (complete name product)
		instNameCands = installCands(S("app"), S(cnames...), S("", "P1"), S(cnames...), S("S1", "S2"), nameIdents, I(0), I(0), S("plug", "slot", "both"))
		var decls []*declSet
		for _, side := range []struct {
			singles, lists []string
			attr           string
			levels         []string
		}{{plugSingles, plugLists, "plug-p=P1", []string{"SP", "BP"}}, {slotSingles, slotLists, "slot-s=S1", []string{"SL", "BS"}}} {
			var maps []cmap
			for _, n := range append(append([]string{}, side.singles...), side.lists...) {
				maps = append(maps, cmap{n})
			}
			for _, n := range side.singles {
				maps = append(maps, cmap{n, side.attr})
			}
			for _, m := range maps {
				one := altSpec{Mode: "list", Maps: []cmap{m}}
				bare := altSpec{Mode: "map", Maps: []cmap{m}}
				for _, lv := range side.levels {
					decls = append(decls, atLevel(lv, &fullRule{Inst: &ruleSpec{Allow: one}}), atLevel(lv, &fullRule{Inst: &ruleSpec{Deny: bare}}))
				}
			}
		}
		rn.sweep("install_names", decls, instNameCands, instKinds, nil)
	}
	if !rn.full() {
		// installation: alternative lists of name maps (allow x deny), and snap-declaration x base-declaration
		// precedence with name rules
		plugNM := pick(nil, "plug-names=[top]", "plug-names=[paren,iface]", "plug-names=[class]&plug-p=P1")
		slotNM := pick(nil, "slot-names=[top3]", "slot-names=[iface,paren]", "slot-names=[lit]&slot-s=S1")
		distractor := &ruleSpec{Allow: altSpec{Mode: "false"}, Deny: altSpec{Mode: "true"}}
		assertedOnly := installCands(S("app"), S(cnames...), S("", "P1"), S(cnames...), S("S1", "S2"), I(1), I(0), I(0), S("plug", "slot", "both"))
		for _, side := range []struct {
			menu   []cmap
			levels []string
		}{{plugNM, []string{"SP", "BP"}}, {slotNM, []string{"SL", "BS"}}} {
			specs := ruleSpecs(altOptions(side.menu, thorough))
			for _, lv := range side.levels {
				if rn.full() {
					break
				}
				decls := make([]*declSet, len(specs))
				for i, s := range specs {
					decls[i] = atLevel(lv, &fullRule{Inst: s, Conn: distractor})
				}
				rn.sweep("install_name_rules", decls, assertedOnly, instKinds, nil)
			}
		}
		opt := func(ms []cmap) []*fullRule {
			return []*fullRule{nil,
				{Inst: &ruleSpec{Allow: altSpec{Mode: "list", Maps: ms[:1]}}},
				{Inst: &ruleSpec{Deny: altSpec{Mode: "map", Maps: ms[1:2]}}},
				{Inst: &ruleSpec{Allow: altSpec{Mode: "list", Maps: ms[1:]}, Deny: altSpec{Mode: "list", Maps: ms[:1]}}}}
		}
		var decls []*declSet
		for _, sp := range opt(plugNM) {
			for _, sl := range opt(slotNM) {
				for _, bp := range opt(plugNM) {
					for _, bs := range opt(slotNM) {
						decls = append(decls, &declSet{SP: sp, SL: sl, BP: bp, BS: bs})
					}
				}
			}
		}
		if !rn.full() {
			rn.sweep("install_name_precedence", decls, instNameCands, instKinds, nil)
		}
	}

	// ---- layer "atoms" (the largest one, run last so that a time cap cannot hide the others) ----
	if !rn.full() {
		var single, pair []*declSet
		for _, side := range []struct {
			side   int
			levels []string
		}{{plugConn, []string{"PS", "BP"}}, {slotConn, []string{"SS", "BS"}}} {
			singles, pairs := mapsFor(side.side, !thorough)
			single = append(single, atomDecls(singles, side.levels)...)
			pair = append(pair, atomDecls(pairs, side.levels)...)
		}
		rn.sweep("atoms", single, full, connKinds, nil)
		if thorough {
			rn.sweep("atom_pairs", pair, full, connKinds, nil)
		} else {
			rn.sweep("atom_pairs", pair, mediumConnCands(), connKinds, nil)
		}
	}

	if rn.full() {
		r.Cap("violations", fmt.Sprintf("stopped after %d violating declaration sets", rn.maxViol))
	}
	r.Info("bounds", map[string]int{"atoms": len(atomList), "id_list_atoms_generated": 40, "full_candidates": len(full), "reduced_candidates": len(reduced),
		"plug_side_atoms": countMaps(plugConn, !thorough, false), "plug_side_atom_pairs": countMaps(plugConn, !thorough, true),
		"slot_side_atoms": countMaps(slotConn, !thorough, false), "slot_side_atom_pairs": countMaps(slotConn, !thorough, true),
		"alt_options_per_entry": len(altOptions(plugMenu, thorough)), "precedence_rules_per_level": len(plugR),
		"name_entry_shapes": len(nameEntries), "name_atoms_generated": len(nameAtomList), "candidate_names": len(cnames),
		"name_candidates": len(nameCands), "install_name_candidates": len(instNameCands), "name_alt_options_per_entry": len(altOptions(nameMenu, thorough))})
	r.Sample(c21Case{Layer: "names", Kind: "connection", Cand: &nameCands[len(nameCands)/5],
		Decls: atLevel("BS", &fullRule{Conn: &ruleSpec{Allow: altSpec{Mode: "list", Maps: pick(nil, "plug-names=[top,iface]")}}})})
	r.Sample(c21Case{Layer: "precedence", Kind: "auto-connection", Cand: &reduced[len(reduced)/2],
		Decls: &declSet{PS: &fullRule{Conn: plugR[3], Auto: plugR[5]}, BS: &fullRule{Conn: slotR[2], Auto: slotR[0]}}})
	r.Sample(c21Case{Layer: "atoms", Kind: "connection", Cand: &full[len(full)/3],
		Decls: atLevel("SS", &fullRule{Conn: &ruleSpec{Allow: altSpec{Mode: "list", Maps: pick(nil, "plug-pub=$SLOT&slot-type=core")}}})})
	r.Finish(rule)
}

func countMaps(side int, primaryOnly, pairs bool) int {
	a, b := mapsFor(side, primaryOnly)
	if pairs {
		return len(b)
	}
	return len(a)
}

// denySubset: is every deny alternative of a also one of b (so b only adds deny alternatives)?
func denySubset(a, b altSpec) bool {
	set := func(x altSpec) (all bool, m map[string]bool) {
		switch x.Mode {
		case "true":
			return true, nil
		case "", "false":
			return false, map[string]bool{}
		}
		m = map[string]bool{}
		for _, mm := range x.Maps {
			m[strings.Join(mm, "&")] = true
		}
		return false, m
	}
	aAll, am := set(a)
	bAll, bm := set(b)
	if bAll {
		return true
	}
	if aAll {
		return false
	}
	for k := range am {
		if !bm[k] {
			return false
		}
	}
	return true
}

// monotonic: the law "adding a deny constraint never turns a refusal into an allowance", checked on the
// implementation's own verdicts (no reference involved): for rules with the same allow entry and deny(r1) ⊆
// deny(r2), allowed(r2, c) implies allowed(r1, c).
func (rn *runner) monotonic(level string, specs []*ruleSpec, decls []*declSet, verdict [][]bool, cands []cand) {
	byAllow := map[string][]int{}
	for i, s := range specs {
		k := s.Allow.String()
		byAllow[k] = append(byAllow[k], i)
	}
	keys := make([]string, 0, len(byAllow))
	for k := range byAllow {
		keys = append(keys, k)
	}
	sort.Strings(keys)
	var pairs, strict int64
	for _, k := range keys {
		idx := byAllow[k]
		for _, i := range idx {
			for _, j := range idx {
				if i == j || !denySubset(specs[i].Deny, specs[j].Deny) {
					continue
				}
				pairs++
				differs := false
				for ci := range cands {
					if verdict[j][ci] && !verdict[i][ci] {
						rn.r.Violation(fmt.Sprintf("monotonic:%s:%s:%s", level, decls[i], &cands[ci]),
							fmt.Sprintf("connection of %s: refused with %s but allowed after adding deny alternatives (%s)", &cands[ci], decls[i], decls[j]),
							c21Case{Layer: "monotonic", Kind: "connection", Decls: decls[i], More: decls[j], Cand: &cands[ci]})
						atomic.AddInt64(&rn.nviol, 1)
						break
					}
					if verdict[i][ci] != verdict[j][ci] {
						differs = true
					}
				}
				if differs {
					strict++
				}
			}
		}
	}
	rn.r.Add("monotonicity_rule_pairs", pairs)
	rn.r.Add("monotonicity_pairs_where_added_deny_changed_a_verdict", strict)
	rn.r.Add("evaluations", pairs*int64(len(cands)))
}

func (rn *runner) replay(c c21Case) {
	if c.Decls == nil || c.Cand == nil {
		eng.HarnessError("replay case needs decls and cand")
	}
	setEnv(c.Cand.Env)
	install := c.Kind == "installation"
	b := build(c.Decls, install)
	var first string
	o := rn.w.objsFor(c.Cand, install)
	for i := 0; i < 5; i++ {
		msg, allowed, level := rn.w.evalOne(b, c.Decls, c.Cand, o, c.Kind)
		out := fmt.Sprintf("%s: implementation allowed=%v, deciding level %s %s", c.Kind, allowed, level, msg)
		if i == 0 {
			first = out
			fmt.Println("replay", c.Layer, out)
			if msg != "" {
				rn.r.Violation(fmt.Sprintf("%s:%s:%s:%s", c.Layer, c.Kind, c.Decls, c.Cand), msg, c)
			}
		} else if out != first {
			eng.HarnessError("verdict of the replayed case is not stable: %q vs %q", first, out)
		}
	}
	if c.More != nil {
		b2 := build(c.More, install)
		_, a1, _ := rn.w.evalOne(b, c.Decls, c.Cand, o, c.Kind)
		_, a2, _ := rn.w.evalOne(b2, c.More, c.Cand, o, c.Kind)
		fmt.Printf("replay monotonic: allowed=%v, with more deny alternatives allowed=%v\n", a1, a2)
		if a2 && !a1 {
			rn.r.Violation(fmt.Sprintf("monotonic:%s:%s", c.Decls, c.Cand), "adding deny alternatives turned a refusal into an allowance", c)
		}
	}
}
