// C35 — revisions and epochs round-trip; epoch compatibility is set intersection.
//
// Exhaustive enumeration (no sampling) of
//
//	revisions: a set of integers (small, powers of ten, 32/64-bit boundaries) through String, JSON
//	           (quoted and bare), YAML; every string made of ≤ K tokens of a covering token alphabet
//	           through ParseRevision / JSON / YAML (acceptance, value, agreement of the three readers);
//	epochs:    every structured input {read: L1, write: L2} with L1, L2 ∈ {absent} ∪ all sequences
//	           (not only sets: duplicates and wrong orders are the invalid forms) over {0..M-1} up to
//	           length Lmax, plus lists of 9/10/11 elements, through the JSON and the YAML reader;
//	           every short form made of ≤ K tokens; directly constructed Epoch values (nil / empty /
//	           set lists) for Validate, String, MarshalJSON round trips; CanRead on all ordered pairs.
//
// Oracles: round-trip laws, a reference validity/normalisation model for epochs (from the doc comment
// of snap.Epoch), set intersection for CanRead.
package c35_test

import (
	"encoding/json"
	"fmt"
	"math"
	"reflect"
	"regexp"
	"strconv"
	"strings"
	"sync"
	"sync/atomic"
	"testing"
	"time"

	"gopkg.in/yaml.v2"

	"github.com/snapcore/snapd/snap"
	eng "github.com/snapcore/snapd/verifengine"
)

// ------------------------------------------------------------------------------------------------
// cases (also the replay format)

type lst struct {
	Present bool     `json:"present"`
	Items   []uint32 `json:"items,omitempty"`
}

func (l lst) slice() []uint32 {
	if !l.Present {
		return nil
	}
	out := make([]uint32, len(l.Items))
	copy(out, l.Items)
	return out
}

func (l lst) String() string {
	if !l.Present {
		return "-"
	}
	s := make([]string, len(l.Items))
	for i, x := range l.Items {
		s[i] = strconv.FormatUint(uint64(x), 10)
	}
	return "[" + strings.Join(s, ",") + "]"
}

type vCase struct {
	Kind string `json:"kind"`          // rev-int | rev-str | epoch-doc | epoch-short | epoch-struct | canread
	N    int64  `json:"n,omitempty"`   // rev-int
	S    string `json:"s,omitempty"`   // rev-str, epoch-short: the string; epoch-doc: the document text
	Fmt  string `json:"fmt,omitempty"` // epoch-doc / epoch-short: json | yaml | yaml-raw
	R    *lst   `json:"r,omitempty"`   // epoch-struct, canread (a)
	W    *lst   `json:"w,omitempty"`
	R2   *lst   `json:"r2,omitempty"` // canread (b)
	W2   *lst   `json:"w2,omitempty"`
	// expectation for hand-listed documents: accept | reject | any
	Expect string `json:"expect,omitempty"`
}

type verdict struct {
	key, msg string
	outcome  string
	nontriv  bool
}

func bad(law, id, format string, a ...interface{}) verdict {
	return verdict{key: law + ":" + strings.ReplaceAll(id, " ", "␣"), msg: fmt.Sprintf(format, a...)}
}

func guard(law, id string, f func() verdict) (v verdict) {
	defer func() {
		if e := recover(); e != nil {
			v = bad(law+"-panic", id, "panic: %v", e)
		}
	}()
	return f()
}

// ------------------------------------------------------------------------------------------------
// revisions

type revDoc struct {
	Rev snap.Revision `json:"rev" yaml:"rev"`
}

func refRevString(n int64) string {
	switch {
	case n == 0:
		return "unset"
	case n < 0:
		// written without negating n, so that the most negative integer has a spelling too
		return "x" + strings.TrimPrefix(strconv.FormatInt(n, 10), "-")
	}
	return strconv.FormatInt(n, 10)
}

func checkRevInt(n int64) verdict {
	id := strconv.FormatInt(n, 10)
	return guard("rev-int", id, func() verdict {
		r := snap.Revision{N: int(n)}
		s := r.String()
		if r.Unset() != (n == 0) || r.Local() != (n < 0) || r.Store() != (n > 0) {
			return bad("rev-kind", id, "Revision{%d}: Unset=%v Local=%v Store=%v", n, r.Unset(), r.Local(), r.Store())
		}
		back, err := snap.ParseRevision(s)
		if err != nil || back != r {
			return bad("rev-string-roundtrip", id, "Revision{%d} prints as %q which reads back as %v, %v", n, s, back, err)
		}
		if s != refRevString(n) {
			return bad("rev-string-form", id, "Revision{%d}.String()=%q; want %q", n, s, refRevString(n))
		}
		// JSON, as a value and as a struct field
		js, err := json.Marshal(r)
		if err != nil || string(js) != `"`+s+`"` {
			return bad("rev-json-form", id, "json.Marshal(Revision{%d})=%s, %v", n, js, err)
		}
		var viaJSON snap.Revision
		if err := json.Unmarshal(js, &viaJSON); err != nil || viaJSON != r {
			return bad("rev-json-roundtrip", id, "Revision{%d} -> %s -> %v, %v", n, js, viaJSON, err)
		}
		dj, _ := json.Marshal(revDoc{Rev: r})
		var dback revDoc
		if err := json.Unmarshal(dj, &dback); err != nil || dback.Rev != r {
			return bad("rev-json-roundtrip", id, "struct field: Revision{%d} -> %s -> %v, %v", n, dj, dback.Rev, err)
		}
		// bare JSON number (legacy form): the number itself, and the same as the quoted number when that is valid
		var bare snap.Revision
		if err := json.Unmarshal([]byte(id), &bare); err != nil || int64(bare.N) != n {
			return bad("rev-json-bare", id, "bare JSON number %s reads as %v, %v; want Revision{%d}", id, bare, err, n)
		}
		if n > 0 {
			var quoted snap.Revision
			if err := json.Unmarshal([]byte(`"`+id+`"`), &quoted); err != nil || quoted != bare {
				return bad("rev-json-bare-vs-quoted", id, "bare %s reads as %v but quoted reads as %v, %v", id, bare, quoted, err)
			}
		}
		// YAML
		ys, err := yaml.Marshal(r)
		if err != nil {
			return bad("rev-yaml-roundtrip", id, "yaml.Marshal(Revision{%d}): %v", n, err)
		}
		var viaYAML snap.Revision
		if err := yaml.Unmarshal(ys, &viaYAML); err != nil || viaYAML != r {
			return bad("rev-yaml-roundtrip", id, "Revision{%d} -> %q -> %v, %v", n, ys, viaYAML, err)
		}
		dy, _ := yaml.Marshal(revDoc{Rev: r})
		var yback revDoc
		if err := yaml.Unmarshal(dy, &yback); err != nil || yback.Rev != r {
			return bad("rev-yaml-roundtrip", id, "struct field: Revision{%d} -> %q -> %v, %v", n, dy, yback.Rev, err)
		}
		if n > 0 {
			// unquoted YAML integer
			var y2 revDoc
			if err := yaml.Unmarshal([]byte("rev: "+id+"\n"), &y2); err != nil || y2.Rev != r {
				return bad("rev-yaml-roundtrip", id, "unquoted yaml integer %s reads as %v, %v", id, y2.Rev, err)
			}
		}
		return verdict{outcome: "roundtrip", nontriv: true}
	})
}

var revCanonRe = regexp.MustCompile(`^x?[1-9][0-9]*$`)
var revLenientRe = regexp.MustCompile(`^x?[+]?[0-9]+$`) // what strconv.Atoi additionally reads as a positive number

// refRev classifies a revision string: canonical (must be accepted with that value), lenient (a sloppy
// spelling of a positive decimal: '+' sign and/or leading zeros — accepting it with that value or
// rejecting it are both fine), or invalid (must be rejected).
func refRev(s string) (class string, val int64) {
	if s == "unset" {
		return "canonical", 0
	}
	if !revLenientRe.MatchString(s) {
		return "invalid", 0
	}
	digits := strings.TrimLeft(strings.TrimPrefix(strings.TrimPrefix(s, "x"), "+"), "0")
	if digits == "" {
		return "invalid", 0 // zero is no revision: 0, x0, +0, 00
	}
	u, err := strconv.ParseUint(digits, 10, 64)
	if err != nil || u > 1<<63 || (u == 1<<63 && s[0] != 'x') {
		return "invalid", 0 // out of range
	}
	if u == 1<<63 {
		// magnitude of the most negative integer: an implementation that can print it must read it back
		// (checked by the integer round trip); one that cannot may reject it
		return "lenient", math.MinInt64
	}
	v := int64(u)
	if s[0] == 'x' {
		v = -v
	}
	if revCanonRe.MatchString(s) {
		return "canonical", v
	}
	return "lenient", v
}

func checkRevStr(s string) verdict {
	return guard("rev-str", strconv.Quote(s), func() verdict {
		id := strconv.Quote(s)
		class, want := refRev(s)
		r, err := snap.ParseRevision(s)
		// the JSON and YAML readers must agree with ParseRevision
		var rj snap.Revision
		jerr := rj.UnmarshalJSON([]byte(`"` + s + `"`))
		var ry snap.Revision
		yerr := ry.UnmarshalYAML(func(v interface{}) error { *(v.(*string)) = s; return nil })
		if (err == nil) != (jerr == nil) || (err == nil) != (yerr == nil) || (err == nil && (rj != r || ry != r)) {
			return bad("rev-readers-agree", id, "ParseRevision(%q)=%v,%v; JSON %v,%v; YAML %v,%v", s, r, err, rj, jerr, ry, yerr)
		}
		if err != nil && r != (snap.Revision{}) {
			return bad("rev-reject-zero", id, "ParseRevision(%q) failed but returned %v", s, r)
		}
		switch class {
		case "invalid":
			if err == nil {
				return bad("rev-invalid-accepted", id, "ParseRevision(%q)=%v; this string denotes no revision and must be rejected", s, r)
			}
			return verdict{outcome: "rejected"}
		case "canonical":
			if err != nil || int64(r.N) != want {
				return bad("rev-valid-rejected", id, "ParseRevision(%q)=%v,%v; want Revision{%d}", s, r, err, want)
			}
			if r.String() != s {
				return bad("rev-string-roundtrip", id, "ParseRevision(%q) prints as %q", s, r.String())
			}
			return verdict{outcome: "canonical", nontriv: true}
		default: // lenient
			if err != nil {
				return verdict{outcome: "lenient-rejected"}
			}
			if int64(r.N) != want {
				return bad("rev-lenient-value", id, "ParseRevision(%q)=%v; the only defensible value is %d", s, r, want)
			}
			back, berr := snap.ParseRevision(r.String())
			if berr != nil || back != r {
				return bad("rev-string-roundtrip", id, "ParseRevision(%q)=%v prints as %q which reads back as %v,%v", s, r, r.String(), back, berr)
			}
			return verdict{outcome: "lenient-accepted", nontriv: true}
		}
	})
}

// ------------------------------------------------------------------------------------------------
// epochs: reference model (doc comment of snap.Epoch)

func increasing(l []uint32) bool {
	for i := 1; i < len(l); i++ {
		if l[i-1] >= l[i] {
			return false
		}
	}
	return true
}

// setIntersect: "empty meaning 0"
func setIntersect(a, b []uint32) bool {
	if len(a) == 0 {
		a = []uint32{0}
	}
	if len(b) == 0 {
		b = []uint32{0}
	}
	m := map[uint32]bool{}
	for _, x := range a {
		m[x] = true
	}
	for _, x := range b {
		if m[x] {
			return true
		}
	}
	return false
}

func validLists(r, w []uint32) bool {
	return len(r) > 0 && len(w) > 0 && len(r) <= 10 && len(w) <= 10 && increasing(r) && increasing(w) && setIntersect(r, w)
}

// refStructured: defaults then validity. read defaults to write, write defaults to the last item of
// read, both unset = epoch 0; explicitly empty lists are invalid.
func refStructured(r, w lst) (read, write []uint32, ok bool) {
	if (r.Present && len(r.Items) == 0) || (w.Present && len(w.Items) == 0) {
		return nil, nil, false
	}
	read, write = r.slice(), w.slice()
	if !r.Present {
		if !w.Present {
			write = []uint32{0}
		}
		read = write
	}
	if !w.Present && r.Present {
		write = read[len(read)-1:]
	}
	return read, write, validLists(read, write)
}

func refPrinted(read, write []uint32) string {
	isZ := func(l []uint32) bool { return len(l) == 0 || (len(l) == 1 && l[0] == 0) }
	if isZ(read) && isZ(write) {
		return "0"
	}
	if len(read) == 1 && len(write) == 1 && read[0] == write[0] {
		return strconv.FormatUint(uint64(read[0]), 10)
	}
	if len(read) == 2 && len(write) == 1 && uint64(read[0])+1 == uint64(read[1]) && read[1] == write[0] {
		return strconv.FormatUint(uint64(read[1]), 10) + "*"
	}
	return "" // structured
}

func norm(l []uint32) []uint32 {
	if len(l) == 0 {
		return []uint32{0}
	}
	return l
}

func sameEpoch(e snap.Epoch, read, write []uint32) bool {
	return reflect.DeepEqual(norm(e.Read), norm(read)) && reflect.DeepEqual(norm(e.Write), norm(write))
}

func listJSON(l []uint32) string {
	s := make([]string, len(l))
	for i, x := range l {
		s[i] = strconv.FormatUint(uint64(x), 10)
	}
	return "[" + strings.Join(s, ",") + "]"
}

func docOf(r, w lst) string {
	var f []string
	if r.Present {
		f = append(f, `"read":`+listJSON(r.Items))
	}
	if w.Present {
		f = append(f, `"write":`+listJSON(w.Items))
	}
	return "{" + strings.Join(f, ",") + "}"
}

func decode(format, doc string) (snap.Epoch, error) {
	var e snap.Epoch
	var err error
	switch format {
	case "json":
		err = json.Unmarshal([]byte(doc), &e)
	case "yaml", "yaml-raw":
		err = yaml.Unmarshal([]byte(doc), &e)
	default:
		eng.HarnessError("unknown format %q", format)
	}
	return e, err
}

// roundTrips checks every law that holds for a *valid* epoch value: Validate passes, it can read its own
// data, and it reads back unchanged from its JSON form and from its printed form (through the JSON and
// the YAML reader). Returns law name and message, or "".
func roundTrips(e snap.Epoch) (string, string) {
	if err := e.Validate(); err != nil {
		return "epoch-valid-fails-validate", fmt.Sprintf("Validate(%v)=%v", e, err)
	}
	if !e.CanRead(e) {
		return "epoch-cannot-read-itself", fmt.Sprintf("valid epoch %v cannot read its own data", e)
	}
	js, err := json.Marshal(e)
	if err != nil {
		return "epoch-json-roundtrip", fmt.Sprintf("Marshal(%v): %v", e, err)
	}
	var back snap.Epoch
	if err := json.Unmarshal(js, &back); err != nil || !back.Equal(&e) || !e.Equal(&back) || !sameEpoch(back, e.Read, e.Write) {
		return "epoch-json-roundtrip", fmt.Sprintf("%v -> %s -> %v, %v", e, js, back, err)
	}
	var backY snap.Epoch
	if err := yaml.Unmarshal(js, &backY); err != nil || !sameEpoch(backY, e.Read, e.Write) {
		return "epoch-json-roundtrip", fmt.Sprintf("(yaml reader) %v -> %s -> %v, %v", e, js, backY, err)
	}
	p := e.String()
	doc := p
	if !strings.HasPrefix(p, "{") {
		doc = `"` + p + `"`
	}
	var backP snap.Epoch
	if err := json.Unmarshal([]byte(doc), &backP); err != nil || !backP.Equal(&e) || !sameEpoch(backP, e.Read, e.Write) {
		return "epoch-print-roundtrip", fmt.Sprintf("%#v prints as %s which reads back as %v, %v", e, p, backP, err)
	}
	var backPY snap.Epoch
	if err := yaml.Unmarshal([]byte(p), &backPY); err != nil || !sameEpoch(backPY, e.Read, e.Write) {
		return "epoch-print-roundtrip", fmt.Sprintf("(yaml reader) %#v prints as %s which reads back as %v, %v", e, p, backPY, err)
	}
	if want := refPrinted(e.Read, e.Write); want != "" && p != want {
		return "epoch-printed-form", fmt.Sprintf("%#v prints as %q; want %q", e, p, want)
	} else if want == "" && !strings.HasPrefix(p, "{") {
		return "epoch-printed-form", fmt.Sprintf("%#v prints as %q; want the structured form", e, p)
	}
	return "", ""
}

// checkEpochDoc: one structured document through one reader.
func checkEpochDoc(format string, r, w lst) verdict {
	doc := docOf(r, w)
	id := format + ":" + doc
	return guard("epoch-doc", id, func() verdict {
		read, write, ok := refStructured(r, w)
		e, err := decode(format, doc)
		if (err == nil) != ok {
			return bad("epoch-accept", id, "%s reader on %s: err=%v; reference says valid=%v", format, doc, err, ok)
		}
		if err != nil {
			if e.Read != nil || e.Write != nil {
				return bad("epoch-reject-zero", id, "%s reader rejected %s but left %v in the value", format, doc, e)
			}
			return verdict{outcome: "rejected:" + err.Error()}
		}
		if !reflect.DeepEqual(e.Read, read) || !reflect.DeepEqual(e.Write, write) {
			return bad("epoch-defaults", id, "%s reader on %s gave %#v; want read %v write %v", format, doc, e, read, write)
		}
		if law, msg := roundTrips(e); law != "" {
			return bad(law, id, "%s", msg)
		}
		return verdict{outcome: "accepted", nontriv: true}
	})
}

var shortRe = regexp.MustCompile(`^(0|[1-9][0-9]*)(\*?)$`)

func refShort(s string) (read, write []uint32, ok bool) {
	if s == "" {
		return []uint32{0}, []uint32{0}, true
	}
	m := shortRe.FindStringSubmatch(s)
	if m == nil || len(m[1]) > 10 {
		return nil, nil, false
	}
	n, err := strconv.ParseUint(m[1], 10, 64)
	if err != nil || n >= 1<<32 {
		return nil, nil, false
	}
	if m[2] == "*" {
		if n == 0 {
			return nil, nil, false
		}
		return []uint32{uint32(n - 1), uint32(n)}, []uint32{uint32(n)}, true
	}
	return []uint32{uint32(n)}, []uint32{uint32(n)}, true
}

var rawYAMLRe = regexp.MustCompile(`^[0-9]+\*?$`)

// checkEpochShort: one short-form string through one reader (json: JSON string; yaml: quoted scalar as
// produced by yaml.Marshal; yaml-raw: the plain scalar, only for digit strings with optional star).
func checkEpochShort(format, s string) verdict {
	id := format + ":" + strconv.Quote(s)
	return guard("epoch-short", id, func() verdict {
		var doc string
		switch format {
		case "json":
			b, _ := json.Marshal(s)
			doc = string(b)
		case "yaml":
			b, _ := yaml.Marshal(s)
			doc = string(b)
		case "yaml-raw":
			doc = s + "\n"
		}
		read, write, ok := refShort(s)
		e, err := decode(format, doc)
		if (err == nil) != ok {
			return bad("epoch-short-accept", id, "%s reader on %q: err=%v; reference says valid=%v", format, doc, err, ok)
		}
		if err != nil {
			return verdict{outcome: "rejected"}
		}
		if !reflect.DeepEqual(e.Read, read) || !reflect.DeepEqual(e.Write, write) {
			return bad("epoch-short-value", id, "%s reader on %q gave %#v; want read %v write %v", format, doc, e, read, write)
		}
		if law, msg := roundTrips(e); law != "" {
			return bad(law, id, "%s", msg)
		}
		return verdict{outcome: "accepted", nontriv: true}
	})
}

// checkEpochArbitrary: hand-listed odd documents. Reference-free law: whatever is accepted is a valid
// epoch that round-trips; plus the listed expectation where the doc comment is unambiguous.
func checkEpochArbitrary(format, doc, expect string) verdict {
	id := format + ":" + doc
	return guard("epoch-arbitrary", id, func() verdict {
		e, err := decode(format, doc)
		if expect == "accept" && err != nil {
			return bad("epoch-arbitrary-rejected", id, "%s reader rejected %s: %v", format, doc, err)
		}
		if expect == "reject" && err == nil {
			return bad("epoch-arbitrary-accepted", id, "%s reader accepted %s as %#v", format, doc, e)
		}
		if err != nil {
			return verdict{outcome: "rejected"}
		}
		if law, msg := roundTrips(e); law != "" {
			return bad(law, id, "accepted %s: %s", doc, msg)
		}
		return verdict{outcome: "accepted", nontriv: true}
	})
}

// checkEpochStruct: a directly constructed value (nil / explicitly empty / set lists).
func checkEpochStruct(r, w lst) verdict {
	id := r.String() + "/" + w.String()
	return guard("epoch-struct", id, func() verdict {
		e := snap.Epoch{Read: r.slice(), Write: w.slice()}
		verr := e.Validate()
		halfNil := r.Present != w.Present
		if !halfNil {
			want := (!r.Present && !w.Present) || validLists(r.Items, w.Items)
			if (verr == nil) != want {
				return bad("epoch-validate", id, "Validate(%#v)=%v; reference says valid=%v", e, verr, want)
			}
		}
		// CanRead of itself must be the set intersection whatever the validity
		if got, want := e.CanRead(e), setIntersect(e.Read, e.Write); got != want {
			return bad("epoch-canread", id, "%#v.CanRead(itself)=%v; read∩write≠∅ is %v", e, got, want)
		}
		if verr != nil {
			return verdict{outcome: "invalid:" + verr.Error()}
		}
		if law, msg := roundTrips(e); law != "" {
			return bad(law, id, "%s", msg)
		}
		return verdict{outcome: "valid", nontriv: true}
	})
}

func checkCanRead(r, w, r2, w2 lst) verdict {
	id := r.String() + "/" + w.String() + "~" + r2.String() + "/" + w2.String()
	return guard("canread", id, func() verdict {
		a := snap.Epoch{Read: r.slice(), Write: w.slice()}
		b := snap.Epoch{Read: r2.slice(), Write: w2.slice()}
		got := a.CanRead(b)
		want := setIntersect(a.Read, b.Write)
		if got != want {
			return bad("epoch-canread", id, "%#v.CanRead(%#v)=%v; read(a)∩write(b)≠∅ is %v", a, b, got, want)
		}
		if got {
			return verdict{outcome: "can-read", nontriv: true}
		}
		return verdict{outcome: "cannot-read", nontriv: true}
	})
}

func runCase(c vCase) verdict {
	g := func(l *lst) lst {
		if l == nil {
			return lst{}
		}
		return *l
	}
	switch c.Kind {
	case "rev-int":
		return checkRevInt(c.N)
	case "rev-str":
		return checkRevStr(c.S)
	case "epoch-doc":
		return checkEpochDoc(c.Fmt, g(c.R), g(c.W))
	case "epoch-short":
		return checkEpochShort(c.Fmt, c.S)
	case "epoch-arbitrary":
		return checkEpochArbitrary(c.Fmt, c.S, c.Expect)
	case "epoch-struct":
		return checkEpochStruct(g(c.R), g(c.W))
	case "canread":
		return checkCanRead(g(c.R), g(c.W), g(c.R2), g(c.W2))
	}
	eng.HarnessError("unknown case kind %q", c.Kind)
	return verdict{}
}

// ------------------------------------------------------------------------------------------------
// enumerators

func tokenStrings(tokens []string, maxTokens int) []string {
	res := []string{""}
	prev := []string{""}
	for k := 1; k <= maxTokens; k++ {
		var cur []string
		for _, p := range prev {
			for _, t := range tokens {
				cur = append(cur, p+t)
			}
		}
		res = append(res, cur...)
		prev = cur
	}
	// different token sequences can spell the same string
	seen := map[string]bool{}
	out := res[:0]
	for _, s := range res {
		if !seen[s] {
			seen[s] = true
			out = append(out, s)
		}
	}
	return out
}

// allSequences: every sequence over {0..m-1} of length 0..maxLen (length 0 = explicitly empty list).
func allSequences(m, maxLen int) []lst {
	res := []lst{{Present: true, Items: []uint32{}}}
	prev := [][]uint32{{}}
	for k := 1; k <= maxLen; k++ {
		var cur [][]uint32
		for _, p := range prev {
			for x := 0; x < m; x++ {
				n := append(append([]uint32{}, p...), uint32(x))
				cur = append(cur, n)
			}
		}
		for _, c := range cur {
			res = append(res, lst{Present: true, Items: c})
		}
		prev = cur
	}
	return res
}

// allSubsets: every subset of {0..m-1} as an increasing list (the empty subset = explicitly empty list).
func allSubsets(m int) []lst {
	var res []lst
	for mask := 0; mask < 1<<uint(m); mask++ {
		items := []uint32{}
		for x := 0; x < m; x++ {
			if mask&(1<<uint(x)) != 0 {
				items = append(items, uint32(x))
			}
		}
		res = append(res, lst{Present: true, Items: items})
	}
	return res
}

func upTo(n int) lst {
	l := lst{Present: true}
	for i := 0; i < n; i++ {
		l.Items = append(l.Items, uint32(i))
	}
	return l
}

type arb struct{ format, doc, expect string }

var arbitraryDocs = []arb{
	// top-level forms
	{"json", `null`, "any"}, {"yaml", `null`, "any"}, {"yaml", ``, "any"}, {"yaml", `~`, "any"},
	{"json", `0`, "any"}, {"json", `1`, "any"}, {"json", `true`, "reject"}, {"yaml", `true`, "reject"},
	{"json", `[]`, "reject"}, {"yaml", `[]`, "reject"}, {"json", `[1]`, "reject"}, {"yaml", `[1]`, "reject"},
	{"json", `{}`, "accept"}, {"yaml", `{}`, "accept"},
	{"json", `"1"`, "accept"}, {"yaml", `"1"`, "accept"}, {"yaml", `1`, "accept"}, {"yaml", `1*`, "accept"},
	{"json", `1.0`, "any"}, {"yaml", `1.0`, "reject"}, {"yaml", `1e0`, "reject"}, {"yaml", `0x1`, "reject"}, {"yaml", `0o1`, "reject"},
	{"yaml", `01`, "reject"}, {"yaml", `-1`, "reject"}, {"yaml", `+1`, "reject"}, {"yaml", `1_0`, "reject"},
	// 32-bit boundary
	{"json", `{"read":[4294967295]}`, "accept"}, {"yaml", `{"read":[4294967295]}`, "accept"},
	{"json", `{"read":[4294967294,4294967295],"write":[4294967295]}`, "accept"},
	{"yaml", `{"read":[4294967294,4294967295],"write":[4294967295]}`, "accept"},
	{"json", `{"read":[4294967296]}`, "reject"}, {"yaml", `{"read":[4294967296]}`, "reject"},
	{"json", `{"read":[4294967295,4294967296],"write":[4294967295]}`, "reject"},
	{"json", `{"read":[18446744073709551616]}`, "reject"}, {"yaml", `{"read":[18446744073709551616]}`, "reject"},
	{"json", `"4294967295*"`, "accept"}, {"json", `"4294967296*"`, "reject"}, {"json", `"4294967296"`, "reject"},
	// malformed items
	{"json", `{"read":[-1]}`, "reject"}, {"yaml", `{"read":[-1]}`, "reject"},
	{"json", `{"read":[-0]}`, "reject"}, {"yaml", `{"read":[-0]}`, "reject"},
	{"json", `{"read":[1.0]}`, "reject"}, {"yaml", `{"read":[1.0]}`, "reject"},
	{"json", `{"read":[1e0]}`, "reject"}, {"json", `{"read":["1"]}`, "any"}, {"yaml", `{"read":["1"]}`, "any"},
	{"yaml", `{"read":[01]}`, "reject"}, {"yaml", `{"read":[0x1]}`, "reject"}, {"yaml", `{"read":[+1]}`, "reject"},
	{"json", `{"read":[[1]]}`, "reject"}, {"yaml", `{"read":[[1]]}`, "reject"},
	{"json", `{"read":[null]}`, "reject"}, {"yaml", `{"read":[null]}`, "any"}, {"json", `{"read":[true]}`, "reject"},
	{"json", `{"read":1}`, "reject"}, {"yaml", `{"read":1}`, "reject"}, {"json", `{"read":"1"}`, "reject"},
	{"json", `{"read":{"a":1}}`, "reject"}, {"json", `{"read":null}`, "any"}, {"yaml", `{"read":null}`, "any"},
	{"json", `{"read":null,"write":null}`, "any"}, {"json", `{"read":[1],"write":null}`, "any"},
	{"json", `{"read":[1],"other":[2]}`, "any"}, {"json", `{"READ":[1]}`, "any"}, {"yaml", `{"READ":[1]}`, "any"},
	{"json", `{"read":[1],"read":[2]}`, "any"},
	{"yaml", "read: [1, 2]\nwrite: [2]\n", "accept"}, {"yaml", "read:\n- 1\n- 2\n", "accept"}, {"yaml", "write:\n- 3\n", "accept"},
	{"json", `"0*"`, "reject"}, {"json", `"1**"`, "reject"}, {"json", `" 1"`, "reject"}, {"json", `"1 "`, "reject"}, {"json", `"*"`, "reject"},
	{"json", `"1"`, "accept"}, {"json", `"１"`, "reject"},
}

func revInts() []int64 {
	vals := map[int64]bool{}
	for i := int64(-12); i <= 12; i++ {
		vals[i] = true
	}
	for _, p := range []int64{99, 100, 101, 999, 1000, 65535, 65536, math.MaxInt32 - 1, math.MaxInt32, math.MaxInt32 + 1, math.MaxUint32, math.MaxUint32 + 1,
		1 << 53, math.MaxInt64 - 1, math.MaxInt64} {
		vals[p] = true
		vals[-p] = true
	}
	vals[math.MinInt32] = true
	vals[math.MinInt64] = true
	var out []int64
	for v := range vals {
		out = append(out, v)
	}
	return out
}

// ------------------------------------------------------------------------------------------------

type collector struct {
	mu  sync.Mutex
	n   map[string]int
	r   *eng.Run
	max int
}

// add reports a violation; at most max violations per law are forwarded to the engine (the rest are counted).
func (c *collector) add(v verdict, cs vCase) {
	law := v.key
	if i := strings.Index(law, ":"); i > 0 {
		law = law[:i]
	}
	c.mu.Lock()
	c.n[law]++
	n := c.n[law]
	c.mu.Unlock()
	if n <= c.max {
		c.r.Violation(v.key, v.msg, cs)
	}
}

func TestC35(t *testing.T) {
	r := eng.Start("C35", "exploration", 90*time.Second, 10*time.Minute)
	r.Assume("epoch reference model (defaults, validity, printed short forms; ~70 lines) written from the doc comment of snap.Epoch; CanRead oracle is a map-based set intersection",
		"revision strings: canonical forms are 'unset', N, xN with N a positive decimal without sign or leading zeros; sloppy decimal spellings ('+1', '01', 'x+01') are not judged (accepting them with the obvious value or rejecting them both pass) — see design_deviations",
		"gopkg.in/yaml.v2 and encoding/json as the document readers (the ones snapd uses)")

	if rc := r.ReplayCase(); rc != nil {
		var c vCase
		if err := json.Unmarshal(rc, &c); err != nil {
			eng.HarnessError("bad replay case: %v", err)
		}
		v := runCase(c)
		fmt.Printf("replay %s: outcome=%q key=%q %s\n", eng.JSON(c), v.outcome, v.key, v.msg)
		if v.key != "" {
			r.Violation(v.key, v.msg, c)
		}
		r.Finish("replay")
	}

	col := &collector{n: map[string]int{}, r: r, max: 20}
	var evals, nontriv int64
	outcomes := map[string]map[string]int64{}
	var omu sync.Mutex
	note := func(class string, v verdict, cs func() vCase) {
		atomic.AddInt64(&evals, 1)
		if v.key != "" {
			col.add(v, cs())
			return
		}
		if v.nontriv {
			atomic.AddInt64(&nontriv, 1)
		}
		o := v.outcome
		if len(o) > 80 {
			o = o[:80]
		}
		omu.Lock()
		if outcomes[class] == nil {
			outcomes[class] = map[string]int64{}
		}
		outcomes[class][o]++
		omu.Unlock()
	}

	// ---- revisions
	ints := revInts()
	for _, n := range ints {
		n := n
		note("rev-int", checkRevInt(n), func() vCase { return vCase{Kind: "rev-int", N: n} })
	}
	revTokens := []string{"x", "0", "1", "9", "-", "+", " ", "unset", "X", "9223372036854775807", "9223372036854775808"}
	revStrs := tokenStrings(revTokens, r.Pick(4, 5))
	eng.ParallelFor(len(revStrs), func(i int) {
		s := revStrs[i]
		note("rev-str", checkRevStr(s), func() vCase { return vCase{Kind: "rev-str", S: s} })
	})
	r.Add("revision_ints", int64(len(ints)))
	r.Add("revision_strings", int64(len(revStrs)))

	// ---- epochs: structured documents, both readers
	m, maxLen := r.Pick(4, 5), r.Pick(4, 5)
	yamlMaxLen := 4 // the YAML reader (≈10x slower) gets every document whose enumerated lists have ≤ 4 elements (all of them in the quick tier)
	opts := append([]lst{{Present: false}}, allSequences(m, maxLen)...)
	opts = append(opts, upTo(9), upTo(10), upTo(11))
	var docs int64
	eng.ParallelFor(len(opts), func(i int) {
		if r.TimeUp() {
			r.Cap("time", "structured epoch documents: some read-list rows skipped")
			return
		}
		var n int64
		for j := range opts {
			for _, f := range []string{"json", "yaml"} {
				rr, ww, f := opts[i], opts[j], f
				if f == "yaml" && ((len(rr.Items) > yamlMaxLen && len(rr.Items) < 9) || (len(ww.Items) > yamlMaxLen && len(ww.Items) < 9)) {
					continue
				}
				n++
				note("epoch-doc", checkEpochDoc(f, rr, ww), func() vCase { return vCase{Kind: "epoch-doc", Fmt: f, R: &rr, W: &ww} })
			}
		}
		atomic.AddInt64(&docs, n)
	})
	r.Add("epoch_structured_documents", docs)

	// ---- epochs: short forms
	shortTokens := []string{"0", "1", "2", "9", "*", "-", "+", " ", "a", "4294967295", "4294967296"}
	shorts := tokenStrings(shortTokens, r.Pick(3, 4))
	var nshort int64
	eng.ParallelFor(len(shorts), func(i int) {
		s := shorts[i]
		fs := []string{"json", "yaml"}
		if rawYAMLRe.MatchString(s) {
			fs = append(fs, "yaml-raw")
		}
		for _, f := range fs {
			f := f
			note("epoch-short", checkEpochShort(f, s), func() vCase { return vCase{Kind: "epoch-short", Fmt: f, S: s} })
			atomic.AddInt64(&nshort, 1)
		}
	})
	r.Add("epoch_short_forms", nshort)

	// ---- epochs: hand-listed arbitrary documents
	for _, a := range arbitraryDocs {
		a := a
		note("epoch-arbitrary", checkEpochArbitrary(a.format, a.doc, a.expect), func() vCase {
			return vCase{Kind: "epoch-arbitrary", Fmt: a.format, S: a.doc, Expect: a.expect}
		})
	}
	r.Add("epoch_arbitrary_documents", int64(len(arbitraryDocs)))

	// ---- epochs: directly constructed values; CanRead on all ordered pairs
	sm := r.Pick(4, 5)
	sets := append([]lst{{Present: false}}, allSubsets(sm)...)
	sets = append(sets, lst{Present: true, Items: []uint32{1, 0}}, lst{Present: true, Items: []uint32{2, 2}}, upTo(10), upTo(11),
		lst{Present: true, Items: []uint32{math.MaxUint32 - 1, math.MaxUint32}}, lst{Present: true, Items: []uint32{math.MaxUint32}})
	type ep struct{ r, w lst }
	var eps []ep
	for _, a := range sets {
		for _, b := range sets {
			eps = append(eps, ep{a, b})
		}
	}
	for _, e := range eps {
		e := e
		note("epoch-struct", checkEpochStruct(e.r, e.w), func() vCase { return vCase{Kind: "epoch-struct", R: &e.r, W: &e.w} })
	}
	r.Add("epoch_values", int64(len(eps)))
	validEp := make([]bool, len(eps))
	for i, e := range eps {
		x := snap.Epoch{Read: e.r.slice(), Write: e.w.slice()}
		validEp[i] = x.Validate() == nil
	}
	var pairs, canYes, bothValid int64
	eng.ParallelFor(len(eps), func(i int) {
		a := eps[i]
		var yes, bv int64
		for j, b := range eps {
			b := b
			v := checkCanRead(a.r, a.w, b.r, b.w)
			if v.key != "" {
				col.add(v, vCase{Kind: "canread", R: &a.r, W: &a.w, R2: &b.r, W2: &b.w})
				continue
			}
			if v.outcome == "can-read" {
				yes++
			}
			if validEp[i] && validEp[j] {
				bv++
			}
		}
		atomic.AddInt64(&pairs, int64(len(eps)))
		atomic.AddInt64(&canYes, yes)
		atomic.AddInt64(&bothValid, bv)
	})
	// (*Epoch)(nil) as the reader counts as epoch 0
	for _, b := range eps {
		var np *snap.Epoch
		eb := snap.Epoch{Read: b.r.slice(), Write: b.w.slice()}
		if got, want := np.CanRead(eb), setIntersect(nil, eb.Write); got != want {
			r.Violation("epoch-canread:nil~"+b.r.String()+"/"+b.w.String(), fmt.Sprintf("(*Epoch)(nil).CanRead(%#v)=%v; want %v", eb, got, want), vCase{Kind: "canread", R2: &b.r, W2: &b.w})
		}
	}
	r.Add("canread_pairs", pairs)
	r.Add("canread_pairs_true", canYes)
	r.Add("canread_pairs_false", pairs-canYes)

	for class, mm := range outcomes {
		for o := range mm {
			r.Distinct("outcome_"+class, o)
		}
	}
	r.Info("outcomes", outcomes)
	if len(col.n) > 0 {
		r.Info("violating_inputs_per_law", col.n)
	}
	r.Add("evaluations", evals+pairs)
	r.Add("canread_pairs_both_valid", bothValid)
	r.Add("distinct_nontrivial", nontriv+bothValid)
	r.Info("bounds", map[string]int{"revision_max_tokens": r.Pick(4, 5), "epoch_list_values": m, "epoch_list_max_len": maxLen, "epoch_list_max_len_yaml_reader": yamlMaxLen, "epoch_list_options": len(opts),
		"short_max_tokens": r.Pick(3, 4), "canread_subset_universe": sm, "canread_epochs": len(eps)})
	r.Sample(vCase{Kind: "rev-int", N: -9})
	r.Sample(vCase{Kind: "rev-str", S: "x01"})
	r.Sample(vCase{Kind: "epoch-doc", Fmt: "json", R: &lst{Present: true, Items: []uint32{0, 1, 3}}, W: &lst{Present: true, Items: []uint32{1, 2}}})
	r.Sample(vCase{Kind: "epoch-short", Fmt: "yaml-raw", S: "2*"})
	r.Sample(vCase{Kind: "canread", R: &lst{Present: true, Items: []uint32{0, 1}}, W: &lst{Present: true, Items: []uint32{1}}, R2: &lst{}, W2: &lst{}})
	r.Finish("revisions: every listed integer (all codecs) and every string of ≤K tokens (three readers); epochs: every document {read:L1,write:L2} with L1,L2 absent or any sequence over {0..M-1} up to length Lmax or 0..8/0..9/0..10, through the JSON and YAML readers; every short-form string of ≤K tokens; every directly constructed (read,write) pair of subsets; CanRead on all ordered pairs of those values. distinct_nontrivial = inputs that were accepted/valid (so that value, defaults and all round-trip laws were checked) + revision round trips + CanRead pairs of two valid epochs (all pairs, also of invalid values, are compared with the set model; both verdicts occur, see canread_pairs_true/false)")
}
