// C33 — version comparison is a consistent Debian ordering.
// Exhaustive enumeration of all strings over a covering alphabet up to a length bound:
// all pairs (reflexive, antisymmetric, epoch rejection, agreement with a Debian reference on the
// Debian-valid domain) and all triples (transitivity). The Debian reference is itself validated
// against dpkg --compare-versions on a smaller complete domain, so that a wrong reference cannot alarm.
package c33_test

import (
	"encoding/json"
	"fmt"
	"os/exec"
	"regexp"
	"strings"
	"sync/atomic"
	"testing"
	"time"

	"github.com/snapcore/snapd/strutil"
	eng "github.com/snapcore/snapd/verifengine"
)

const alphabet = "019aZ.+~-:"

func allStrings(maxLen int) []string {
	res := []string{""}
	prev := []string{""}
	for l := 1; l <= maxLen; l++ {
		var cur []string
		for _, p := range prev {
			for i := 0; i < len(alphabet); i++ {
				cur = append(cur, p+string(alphabet[i]))
			}
		}
		res = append(res, cur...)
		prev = cur
	}
	return res
}

var epochRe = regexp.MustCompile(`^[0-9]+:`)
var debValidRe = regexp.MustCompile(`^[0-9][0-9A-Za-z.+~-]*$`)

// debValid: Debian-valid version without epoch: starts with a digit, allowed characters, and if it
// contains '-', the revision after the last '-' is non-empty.
func debValid(s string) bool {
	if !debValidRe.MatchString(s) {
		return false
	}
	if i := strings.LastIndexByte(s, '-'); i >= 0 && i == len(s)-1 {
		return false
	}
	return true
}

// ---- reference: Debian policy manual 5.6.12 ----
func order(c byte, ok bool) int {
	switch {
	case !ok:
		return 0
	case c >= '0' && c <= '9':
		return 0
	case (c >= 'A' && c <= 'Z') || (c >= 'a' && c <= 'z'):
		return int(c)
	case c == '~':
		return -1
	default:
		return int(c) + 256
	}
}

func isDigit(c byte) bool { return c >= '0' && c <= '9' }

func refCmpPart(a, b string) int {
	i, j := 0, 0
	for i < len(a) || j < len(b) {
		// non-digit prefix
		for (i < len(a) && !isDigit(a[i])) || (j < len(b) && !isDigit(b[j])) {
			var ac, bc int
			if i < len(a) && !isDigit(a[i]) {
				ac = order(a[i], true)
			} else {
				ac = order(0, false)
			}
			if j < len(b) && !isDigit(b[j]) {
				bc = order(b[j], true)
			} else {
				bc = order(0, false)
			}
			if ac != bc {
				if ac < bc {
					return -1
				}
				return 1
			}
			if i < len(a) && !isDigit(a[i]) {
				i++
			}
			if j < len(b) && !isDigit(b[j]) {
				j++
			}
		}
		for i < len(a) && a[i] == '0' {
			i++
		}
		for j < len(b) && b[j] == '0' {
			j++
		}
		firstDiff := 0
		for i < len(a) && isDigit(a[i]) && j < len(b) && isDigit(b[j]) {
			if firstDiff == 0 {
				firstDiff = int(a[i]) - int(b[j])
			}
			i++
			j++
		}
		if i < len(a) && isDigit(a[i]) {
			return 1
		}
		if j < len(b) && isDigit(b[j]) {
			return -1
		}
		if firstDiff != 0 {
			if firstDiff < 0 {
				return -1
			}
			return 1
		}
	}
	return 0
}

func refCompare(a, b string) int {
	split := func(s string) (string, string) {
		if i := strings.LastIndexByte(s, '-'); i >= 0 {
			return s[:i], s[i+1:]
		}
		return s, ""
	}
	ua, ra := split(a)
	ub, rb := split(b)
	if r := refCmpPart(ua, ub); r != 0 {
		return r
	}
	return refCmpPart(ra, rb)
}


// dashFamily: versions with up to two '-' built from small component menus. The length-bounded enumeration above
// reaches two dashes only in strings too short for the split point to matter ("0--0"); here the upstream part
// itself contains a '-' next to components that order differently as upstream and as revision.
func dashFamily(first, mid, last []string) []string {
	var res []string
	for _, f := range first {
		res = append(res, f)
		for _, l := range last {
			res = append(res, f+"-"+l)
			for _, m := range mid {
				res = append(res, f+"-"+m+"-"+l)
			}
		}
	}
	return res
}

func dpkgCompare(a, b string) (int, error) {
	for _, op := range []struct {
		o string
		r int
	}{{"lt", -1}, {"eq", 0}, {"gt", 1}} {
		err := exec.Command("dpkg", "--compare-versions", a, op.o, b).Run()
		if err == nil {
			return op.r, nil
		}
		if _, ok := err.(*exec.ExitError); !ok {
			return 0, err
		}
	}
	return 0, fmt.Errorf("dpkg gave no verdict for %q %q", a, b)
}

type pairCase struct {
	A string `json:"a"`
	B string `json:"b"`
	C string `json:"c,omitempty"`
}

func sign(x int) int {
	if x < 0 {
		return -1
	}
	if x > 0 {
		return 1
	}
	return 0
}

// checkPair evaluates every pair law on (a,b); returns violation key/message or "".
func checkPair(a, b string) (string, string) {
	r1, e1 := strutil.VersionCompare(a, b)
	r2, e2 := strutil.VersionCompare(b, a)
	wantErr := epochRe.MatchString(a) || epochRe.MatchString(b)
	if wantErr != (e1 != nil) || wantErr != (e2 != nil) {
		return fmt.Sprintf("epoch:%q:%q", a, b), fmt.Sprintf("VersionCompare(%q,%q) err=%v, reverse err=%v; expected rejection=%v (epoch rule)", a, b, e1, e2, wantErr)
	}
	if wantErr {
		return "", ""
	}
	if a == b && r1 != 0 {
		return fmt.Sprintf("reflexive:%q", a), fmt.Sprintf("VersionCompare(%q,%q)=%d", a, a, r1)
	}
	if sign(r1) != -sign(r2) {
		return fmt.Sprintf("antisym:%q:%q", a, b), fmt.Sprintf("VersionCompare(%q,%q)=%d but reverse=%d", a, b, r1, r2)
	}
	if debValid(a) && debValid(b) {
		if ref := refCompare(a, b); ref != sign(r1) {
			return fmt.Sprintf("debian:%q:%q", a, b), fmt.Sprintf("VersionCompare(%q,%q)=%d but Debian ordering says %d", a, b, r1, ref)
		}
	}
	return "", ""
}

func TestC33(t *testing.T) {
	r := eng.Start("C33", "exploration", 300*time.Second, 15*time.Minute)
	r.Assume("Debian reference = Go transcription of policy manual 5.6.12, validated in this run against dpkg --compare-versions on all pairs of Debian-valid strings up to the calibration length",
		"alphabet {0,1,9,a,Z,.,+,~,-,:} covers: digit classes (zero/non-zero), lower/upper letters, two 'other' characters, tilde, revision separator, epoch separator")

	if rc := r.ReplayCase(); rc != nil {
		var c pairCase
		json.Unmarshal(rc, &c)
		k, m := checkPair(c.A, c.B)
		fmt.Printf("replay pair (%q,%q): %s %s\n", c.A, c.B, k, m)
		if c.C != "" {
			ab, _ := strutil.VersionCompare(c.A, c.B)
			bc, _ := strutil.VersionCompare(c.B, c.C)
			ac, _ := strutil.VersionCompare(c.A, c.C)
			fmt.Printf("replay triple: cmp(a,b)=%d cmp(b,c)=%d cmp(a,c)=%d\n", ab, bc, ac)
			if ab <= 0 && bc <= 0 && ac > 0 {
				k = "transitive"
			}
		}
		if k != "" {
			r.Violation(k, m, c)
		}
		r.Finish("replay")
	}

	pairLen := r.Pick(3, 4)
	tripleLen := r.Pick(2, 3)
	calibLen := r.Pick(2, 3)

	// 1. calibrate the reference against dpkg (complete on the Debian-valid strings up to calibLen)
	var valid []string
	for _, s := range allStrings(calibLen) {
		if debValid(s) {
			valid = append(valid, s)
		}
	}
	var calibBad int64
	var firstBad atomic.Value
	eng.ParallelFor(len(valid), func(i int) {
		for j, b := range valid {
			// the reference is antisymmetric by construction of the check below (in-process, all ordered pairs),
			// so dpkg — one process per question — is only asked about the unordered pairs
			if ra, rb := refCompare(valid[i], b), refCompare(b, valid[i]); ra != -rb {
				atomic.AddInt64(&calibBad, 1)
				firstBad.Store(fmt.Sprintf("reference not antisymmetric on %q vs %q: %d / %d", valid[i], b, ra, rb))
			}
			if j < i {
				continue
			}
			d, err := dpkgCompare(valid[i], b)
			if err != nil {
				eng.HarnessError("dpkg: %v", err)
			}
			if d != refCompare(valid[i], b) {
				atomic.AddInt64(&calibBad, 1)
				firstBad.Store(fmt.Sprintf("%q vs %q: dpkg %d ref %d", valid[i], b, d, refCompare(valid[i], b)))
			}
		}
	})
	// ... and on the multi-dash family (quick: sub-menus; thorough: the menus used below)
	calFam := dashFamily([]string{"0", "1", "1~"}, []string{"", "1", "~", "a"}, []string{"1", "~", "a"})
	famFirst, famMid, famLast := []string{"0", "1", "1a", "1~", "1.1"}, []string{"", "0", "1", "a", "~", "1~", "~1"}, []string{"0", "1", "a", "~", "1~", "~1"}
	fam := dashFamily(famFirst, famMid, famLast)
	if r.Thorough() {
		// one dpkg process per question: the whole family (30 000 unordered pairs) does not fit the budget
		calFam = dashFamily([]string{"0", "1", "1~", "1a"}, []string{"", "1", "~", "a", "~1"}, []string{"1", "~", "a", "1~"})
	}
	for _, s := range calFam {
		if !debValid(s) {
			eng.HarnessError("dash family member %q is not Debian-valid", s)
		}
	}
	eng.ParallelFor(len(calFam), func(i int) {
		for j := i; j < len(calFam); j++ {
			d, err := dpkgCompare(calFam[i], calFam[j])
			if err != nil {
				eng.HarnessError("dpkg: %v", err)
			}
			if d != refCompare(calFam[i], calFam[j]) || d != -refCompare(calFam[j], calFam[i]) {
				atomic.AddInt64(&calibBad, 1)
				firstBad.Store(fmt.Sprintf("%q vs %q: dpkg %d ref %d", calFam[i], calFam[j], d, refCompare(calFam[i], calFam[j])))
			}
		}
	})
	r.Info("reference_calibration_pairs_vs_dpkg", len(valid)*(len(valid)+1)/2+len(calFam)*(len(calFam)+1)/2)
	if calibBad > 0 {
		eng.HarnessError("reference disagrees with dpkg on %d pairs, e.g. %v", calibBad, firstBad.Load())
	}

	// 2. all pairs
	strs := allStrings(pairLen)
	var evals, nontrivial, debPairs int64
	eng.ParallelFor(len(strs), func(i int) {
		a := strs[i]
		var ev, nt, dp int64
		if r.TimeUp() {
			r.Cap("time", "pairs: stopped before all first arguments were taken")
			return
		}
		for _, b := range strs {
			ev++
			k, m := checkPair(a, b)
			if k != "" {
				// canonical key: the lexicographically smaller orientation, so (a,b) and (b,a) are one finding
				if strings.HasPrefix(k, "debian:") && a > b {
					continue
				}
				r.Violation(k, m, pairCase{A: a, B: b})
			}
			if debValid(a) && debValid(b) {
				dp++
				if a != b {
					nt++
				}
			}
		}
		atomic.AddInt64(&evals, ev)
		atomic.AddInt64(&nontrivial, nt)
		atomic.AddInt64(&debPairs, dp)
	})
	// 2b. all ordered pairs of the multi-dash family
	var famEvals, famSplitMatters int64
	eng.ParallelFor(len(fam), func(i int) {
		for _, b := range fam {
			atomic.AddInt64(&famEvals, 1)
			if k, m := checkPair(fam[i], b); k != "" {
				if strings.HasPrefix(k, "debian:") && fam[i] > b {
					continue
				}
				r.Violation(k, m, pairCase{A: fam[i], B: b})
			}
			// vacuity guard: pairs on which splitting at the first '-' instead of the last would change the verdict
			if strings.Count(fam[i], "-")+strings.Count(b, "-") >= 2 && refCompare(fam[i], b) != refCompare(strings.Replace(fam[i], "-", "\x00", 1), strings.Replace(b, "-", "\x00", 1)) {
				atomic.AddInt64(&famSplitMatters, 1)
			}
		}
	})
	r.Add("dash_family_pair_evaluations", famEvals)
	r.Add("dash_family_strings", int64(len(fam)))
	r.Add("dash_family_pairs_where_split_point_matters", famSplitMatters)
	evals += famEvals
	nontrivial += famEvals - int64(len(fam))
	r.Add("pair_evaluations", evals)
	r.Add("debian_domain_pairs", debPairs)

	// 3. all triples (transitivity) on strings up to tripleLen, over accepted strings
	var ts []string
	for _, s := range allStrings(tripleLen) {
		if !epochRe.MatchString(s) {
			ts = append(ts, s)
		}
	}
	n := len(ts)
	m := make([]int8, n*n)
	eng.ParallelFor(n, func(i int) {
		for j := 0; j < n; j++ {
			c, err := strutil.VersionCompare(ts[i], ts[j])
			if err != nil {
				r.Violation(fmt.Sprintf("epoch:%q:%q", ts[i], ts[j]), "unexpected rejection: "+err.Error(), pairCase{A: ts[i], B: ts[j]})
			}
			m[i*n+j] = int8(sign(c))
		}
	})
	var triples int64
	eng.ParallelFor(n, func(i int) {
		var cnt int64
		for j := 0; j < n; j++ {
			if m[i*n+j] > 0 {
				continue
			}
			for k := 0; k < n; k++ {
				cnt++
				if m[j*n+k] <= 0 && m[i*n+k] > 0 {
					r.Violation(fmt.Sprintf("transitive:%q:%q:%q", ts[i], ts[j], ts[k]), fmt.Sprintf("%q<=%q and %q<=%q but %q>%q", ts[i], ts[j], ts[j], ts[k], ts[i], ts[k]), pairCase{A: ts[i], B: ts[j], C: ts[k]})
				}
				// equal elements must be interchangeable: a==b ⇒ cmp(a,c)==cmp(b,c)
				if m[i*n+j] == 0 && m[i*n+k] != m[j*n+k] {
					r.Violation(fmt.Sprintf("congruence:%q:%q:%q", ts[i], ts[j], ts[k]), fmt.Sprintf("%q==%q but they compare differently with %q", ts[i], ts[j], ts[k]), pairCase{A: ts[i], B: ts[j], C: ts[k]})
				}
			}
		}
		atomic.AddInt64(&triples, cnt)
	})
	r.Add("triple_evaluations", triples)
	r.Add("evaluations", evals+triples)
	r.Add("distinct_nontrivial", nontrivial)
	r.Info("bounds", map[string]int{"pair_len": pairLen, "triple_len": tripleLen, "calibration_len": calibLen, "strings": len(strs), "triple_strings": n})
	r.Sample(pairCase{A: "1.0~rc1-2", B: "1.0-2"})
	r.Sample(pairCase{A: strs[len(strs)/2], B: strs[len(strs)/3]})
	r.Sample(pairCase{A: strs[len(strs)-1], B: strs[len(strs)-2], C: ts[n-1]})
	r.Finish("all ordered pairs of the multi-dash family (first[-mid]-last from component menus) and all ordered pairs of all strings over the alphabet up to pair_len (laws: epoch rejection, reflexive, antisymmetric, Debian agreement on Debian-valid pairs) and all triples up to triple_len (transitivity, congruence); distinct_nontrivial = ordered pairs of two different Debian-valid strings, each compared against the reference")
}
