// C09 — pruning removes only finished changes, with all their tasks.
//
// Exhaustive enumeration (E-seq, external): every multiset of <= N changes over a menu of change shapes (empty, five
// unfinished task mixes incl. lanes and a waiting task, three finished shapes) x spawn/ready ages from {0,1,2,3,5} h
// x "pending" attribute, plus a fixture of unlinked tasks (ages 0,1,2,3,5 h), notices and warnings on both sides of
// their expiry, x every Prune parameter tuple of a grid (pruneWait, abortWait in {1/2, 1 1/2, 2 1/2, 4 1/2} h,
// maxReadyChanges in {0,1,2,500}, startOfOperation in {zero, -1h, -3h}, pending predicate in {none, true, false}) and
// sequences of up to 3 Prune calls. The real State.Prune runs on a real State; after every call the outcome is compared
// with a reference computed from the statement.
//
// State.Prune reads time.Now() itself: histories are built with the *state* clock mocked to (real now - k hours) and
// every wait is (m + 1/2) hours, the real now being re-read for every case; a case takes microseconds, so real-time
// drift cannot come near a half-hour boundary.
package c09_test

import (
	"encoding/json"
	"errors"
	"fmt"
	"os"
	"runtime"
	"runtime/debug"
	"sort"
	"strings"
	"testing"
	"time"

	"github.com/snapcore/snapd/overlord/state"
	eng "github.com/snapcore/snapd/verifengine"
)

var ages = []int{0, 1, 2, 3, 5}

var waits = []time.Duration{30 * time.Minute, 90 * time.Minute, 150 * time.Minute, 270 * time.Minute}
var maxes = []int{0, 1, 2, 500}
var starts = []int{-1, 1, 3} // -1: zero time; else hours before now

const (
	kEmpty = iota
	kDo
	kDoDone
	kDoneDoing
	kWaitDo
	kLanes
	kReadyDone
	kReadyError
	kReadyNoTasks
	nKinds
)

var kindNames = []string{"empty", "do", "do+done", "done+doing", "wait+do", "lanes(done|doing,do)", "ready-done", "ready-error", "ready-notasks"}

func kindReady(k int) bool { return k >= kReadyDone }

type chgDesc struct {
	Kind  int  `json:"kind"`
	Spawn int  `json:"spawn"` // age in hours
	Ready int  `json:"ready"` // age in hours, -1 when not ready
	Attr  bool `json:"attr,omitempty"`
}

func (d chgDesc) String() string {
	s := fmt.Sprintf("%s/spawn-%dh", kindNames[d.Kind], d.Spawn)
	if d.Ready >= 0 {
		s += fmt.Sprintf("/ready-%dh", d.Ready)
	}
	if d.Attr {
		s += "/attr"
	}
	return s
}

type pruneP struct {
	PW    int `json:"prune_wait"` // index into waits
	AW    int `json:"abort_wait"`
	Max   int `json:"max"`   // value
	Start int `json:"start"` // -1 zero time, else hours before now
	Pred  int `json:"pred"`  // 0 none, 1 says pending, 2 says not pending
}

func (p pruneP) String() string {
	st := "zero"
	if p.Start >= 0 {
		st = fmt.Sprintf("-%dh", p.Start)
	}
	return fmt.Sprintf("Prune(start=%s,pruneWait=%v,abortWait=%v,max=%d,pred=%s)", st, waits[p.PW], waits[p.AW], p.Max, []string{"none", "pending", "not-pending"}[p.Pred])
}

type caseT struct {
	Changes []chgDesc `json:"changes"`
	Prunes  []pruneP  `json:"prunes"`
	Msg     string    `json:"msg,omitempty"`
}

func (c caseT) String() string {
	var cs, ps []string
	for _, d := range c.Changes {
		cs = append(cs, d.String())
	}
	for _, p := range c.Prunes {
		ps = append(ps, p.String())
	}
	return "[" + strings.Join(cs, " ") + "] " + strings.Join(ps, " ; ")
}

// ---------------------------------------------------------------------------------------------------------------
// reference model

type mTask struct {
	status state.Status // effective status for Wait is kept in waited
	waited state.Status
	lane   int // 0: default lane; 1, 2: the change's own lanes
}

type mChange struct {
	desc     chgDesc
	tasks    []mTask
	ready    bool
	readyAge time.Duration // age of the ready time
	spawnAge time.Duration
	removed  bool
}

func newModelChange(d chgDesc) *mChange {
	m := &mChange{desc: d, spawnAge: time.Duration(d.Spawn) * time.Hour}
	switch d.Kind {
	case kDo:
		m.tasks = []mTask{{status: state.DoStatus}}
	case kDoDone:
		m.tasks = []mTask{{status: state.DoStatus}, {status: state.DoneStatus}}
	case kDoneDoing:
		m.tasks = []mTask{{status: state.DoneStatus}, {status: state.DoingStatus}}
	case kWaitDo:
		m.tasks = []mTask{{status: state.WaitStatus, waited: state.DoneStatus}, {status: state.DoStatus}}
	case kLanes:
		m.tasks = []mTask{{status: state.DoneStatus, lane: 1}, {status: state.DoingStatus, lane: 2}, {status: state.DoStatus, lane: 2}}
	case kReadyDone:
		m.tasks = []mTask{{status: state.DoneStatus}}
	case kReadyError:
		m.tasks = []mTask{{status: state.ErrorStatus}, {status: state.HoldStatus}}
	}
	if kindReady(d.Kind) {
		m.ready = true
		m.readyAge = time.Duration(d.Ready) * time.Hour
	}
	return m
}

func (t mTask) effective() state.Status {
	if t.status == state.WaitStatus {
		return t.waited
	}
	return t.status
}

// abortUnreadyLanes as the statement reads for the shapes used here (every task in exactly one lane, wait edges
// only inside a lane): every lane holding an unfinished task is aborted: pending -> Hold, running -> Abort, done -> Undo.
func (m *mChange) abortUnreadyLanes() (changed bool) {
	live := map[int]bool{}
	for _, t := range m.tasks {
		if !t.status.Ready() {
			live[t.lane] = true
		}
	}
	for i := range m.tasks {
		t := &m.tasks[i]
		if !live[t.lane] {
			continue
		}
		switch t.effective() {
		case state.DoStatus:
			t.status = state.HoldStatus
			changed = true
		case state.DoingStatus:
			t.status = state.AbortStatus
			changed = true
		case state.DoneStatus:
			t.status = state.UndoStatus
			changed = true
		}
	}
	return changed
}

func (m *mChange) allTasksReady() bool {
	for _, t := range m.tasks {
		if !t.status.Ready() {
			return false
		}
	}
	return len(m.tasks) > 0
}

type outcome struct {
	mustRemove  map[int]bool // unready+empty+old, or ready older than pruneWait
	nReadyGone  int          // how many ready changes must be gone
	aborted     map[int]bool
	abortEffect bool
}

// ---------------------------------------------------------------------------------------------------------------
// the world

type world struct {
	st                   *state.State
	anchor               time.Time
	model                []*mChange
	chgs                 []*state.Change
	chgIDs               []string
	tasks                [][]*state.Task
	unlinked             []*state.Task // ages[i]
	unlGone              []bool
	oldNotice, newNotice string
	restore              func()
	problems             []problem
	predCalls            int
	predRegistered       bool
}

type problem struct{ class, msg string }

func (w *world) bad(class, format string, a ...interface{}) {
	w.problems = append(w.problems, problem{class, fmt.Sprintf(format, a...)})
}

const pendingAttr = "pending-attr"

func (w *world) at(age time.Duration) {
	if w.restore != nil {
		w.restore()
	}
	w.restore = state.MockTime(w.anchor.Add(-age))
}

func build(descs []chgDesc) *world {
	w := &world{anchor: time.Now()}
	st := state.New(nil)
	w.st = st
	st.Lock()
	for i, d := range descs {
		m := newModelChange(d)
		w.model = append(w.model, m)
		w.at(m.spawnAge)
		chg := st.NewChange("kind", fmt.Sprintf("change %d: %s", i, d))
		if d.Attr {
			chg.Set(pendingAttr, true)
		}
		var ts []*state.Task
		lanes := map[int]int{}
		for ti, mt := range m.tasks {
			t := st.NewTask("task", fmt.Sprintf("task %d.%d", i, ti))
			if mt.lane != 0 {
				if lanes[mt.lane] == 0 {
					lanes[mt.lane] = st.NewLane()
				}
				t.JoinLane(lanes[mt.lane])
			}
			// wait edges: a task waits for the previous task of its lane
			for pj := ti - 1; pj >= 0; pj-- {
				if m.tasks[pj].lane == mt.lane {
					if d.Kind != kDoDone { // do+done: two independent tasks
						t.WaitFor(ts[pj])
					}
					break
				}
			}
			chg.AddTask(t)
			ts = append(ts, t)
		}
		if m.ready {
			w.at(m.readyAge)
		}
		for ti, mt := range m.tasks {
			switch mt.status {
			case state.DoStatus:
			case state.WaitStatus:
				ts[ti].SetToWait(mt.waited)
			default:
				ts[ti].SetStatus(mt.status)
			}
		}
		if d.Kind == kReadyNoTasks {
			chg.SetStatus(state.DoneStatus)
		}
		w.chgs = append(w.chgs, chg)
		w.chgIDs = append(w.chgIDs, chg.ID())
		w.tasks = append(w.tasks, ts)
	}
	for _, a := range ages {
		w.at(time.Duration(a) * time.Hour)
		w.unlinked = append(w.unlinked, st.NewTask("unlinked", fmt.Sprintf("unlinked spawned %dh ago", a)))
		w.unlGone = append(w.unlGone, false)
	}
	w.at(0)
	// notices expire 7 days after the last occurrence, warnings 28 days after they were last added
	var err error
	w.oldNotice, err = st.AddNotice(nil, state.WarningNotice, "expired", &state.AddNoticeOptions{Time: w.anchor.Add(-7*24*time.Hour - time.Hour)})
	if err != nil {
		eng.HarnessError("AddNotice: %v", err)
	}
	w.newNotice, err = st.AddNotice(nil, state.WarningNotice, "fresh", &state.AddNoticeOptions{Time: w.anchor.Add(-7*24*time.Hour + time.Hour)})
	if err != nil {
		eng.HarnessError("AddNotice: %v", err)
	}
	st.AddWarning("expired warning", &state.AddWarningOptions{Time: w.anchor.Add(-28*24*time.Hour - time.Hour)})
	st.AddWarning("fresh warning", &state.AddWarningOptions{Time: w.anchor.Add(-28*24*time.Hour + time.Hour)})
	// sanity of the construction: readiness of the real changes equals the model
	for i, m := range w.model {
		if w.chgs[i].IsReady() != m.ready || w.chgs[i].ReadyTime().IsZero() == m.ready {
			eng.HarnessError("construction of %s: IsReady=%v ReadyTime=%v, model ready=%v", m.desc, w.chgs[i].IsReady(), w.chgs[i].ReadyTime(), m.ready)
		}
	}
	return w
}

func (w *world) dispose() {
	if w.restore != nil {
		w.restore()
		w.restore = nil
	}
	w.st.Unlock()
}

// expected outcome of one Prune call, from the statement
func (w *world) expect(p pruneP) outcome {
	o := outcome{mustRemove: map[int]bool{}, aborted: map[int]bool{}}
	pw, aw := waits[p.PW], waits[p.AW]
	nReady, nOld := 0, 0
	for i, m := range w.model {
		if m.removed {
			continue
		}
		if m.ready {
			nReady++
			if m.readyAge > pw {
				nOld++
				o.mustRemove[i] = true
			}
			continue
		}
		// unfinished: existence is counted from snapd start at the earliest
		age := m.spawnAge
		if p.Start >= 0 && time.Duration(p.Start)*time.Hour < age {
			age = time.Duration(p.Start) * time.Hour
		}
		if len(m.tasks) == 0 && age > pw {
			o.mustRemove[i] = true
			continue
		}
		if age > aw {
			if p.Pred == 1 && m.desc.Attr {
				continue // still pending according to the registered predicate
			}
			o.aborted[i] = true
		}
	}
	o.nReadyGone = nOld
	if nReady-p.Max > o.nReadyGone {
		o.nReadyGone = nReady - p.Max
	}
	return o
}

// prune runs one Prune call on the implementation and on the model and compares.
func (w *world) prune(p pruneP, step int) {
	st := w.st
	o := w.expect(p)
	// a predicate for an attribute no change carries is always registered and says "pending": it must never matter
	st.RegisterPendingChangeByAttr("other-attr", func(*state.Change) bool { return true })
	switch p.Pred {
	case 0:
		// no predicate for the attribute the changes carry; predicates cannot be unregistered, so after an earlier step
		// of the sequence registered one it is replaced by one that says "not pending" (same outcome)
		if w.predRegistered {
			st.RegisterPendingChangeByAttr(pendingAttr, func(*state.Change) bool { w.predCalls++; return false })
		}
	case 1:
		st.RegisterPendingChangeByAttr(pendingAttr, func(*state.Change) bool { w.predCalls++; return true })
		w.predRegistered = true
	case 2:
		st.RegisterPendingChangeByAttr(pendingAttr, func(*state.Change) bool { w.predCalls++; return false })
		w.predRegistered = true
	}
	var start time.Time
	if p.Start >= 0 {
		start = w.anchor.Add(-time.Duration(p.Start) * time.Hour)
	}
	w.at(0) // ready times set by the aborts of this call: "now"
	panicked := func() (pv interface{}) {
		defer func() { pv = recover() }()
		st.Prune(start, waits[p.PW], waits[p.AW], p.Max)
		return nil
	}()
	if panicked != nil {
		w.bad("panic", "step %d %s panicked: %v", step, p, panicked)
		return
	}
	present := map[string]bool{}
	for _, c := range st.Changes() {
		present[c.ID()] = true
	}
	// unfinished changes and ready ones that must go
	var readyGone, readyKept []int
	for i, m := range w.model {
		if m.removed {
			if present[w.chgIDs[i]] {
				w.bad("resurrected", "step %d: change %d (%s) removed earlier is present again", step, i, m.desc)
			}
			continue
		}
		here := present[w.chgIDs[i]]
		if !m.ready {
			switch {
			case o.mustRemove[i] && here:
				w.bad("empty-unready-kept", "step %d %s: empty unfinished change %d (%s) is past the retention period but was kept", step, p, i, m.desc)
			case !o.mustRemove[i] && !here:
				w.bad("unready-removed", "step %d %s: unfinished change %d (%s) was removed", step, p, i, m.desc)
			}
			if !here {
				m.removed = true
			}
			continue
		}
		if here {
			readyKept = append(readyKept, i)
		} else {
			readyGone = append(readyGone, i)
		}
		if o.mustRemove[i] && here {
			w.bad("old-ready-kept", "step %d %s: change %d (%s) has been ready longer than the retention period but was kept", step, p, i, m.desc)
		}
	}
	if len(readyGone) != o.nReadyGone {
		var g []string
		for _, i := range readyGone {
			g = append(g, w.model[i].desc.String())
		}
		cls := "ready-removed-too-many"
		if len(readyGone) < o.nReadyGone {
			cls = "ready-removed-too-few"
		}
		w.bad(cls, "step %d %s: %d ready changes removed (%v), the statement requires %d (older than the retention period or beyond the limit)", step, p, len(readyGone), g, o.nReadyGone)
	}
	// oldest first: nothing kept is older than something removed (equal ready times tolerate either choice)
	for _, g := range readyGone {
		for _, k := range readyKept {
			if w.model[k].readyAge > w.model[g].readyAge {
				w.bad("not-oldest-first", "step %d %s: removed %s but kept the older %s", step, p, w.model[g].desc, w.model[k].desc)
			}
		}
	}
	for _, g := range readyGone {
		w.model[g].removed = true
	}
	// aborts
	for i, m := range w.model {
		if m.removed {
			continue
		}
		before := fmt.Sprint(m.tasks)
		if o.aborted[i] {
			if m.abortUnreadyLanes() {
				o.abortEffect = true
			}
			if m.allTasksReady() {
				m.ready = true
				m.readyAge = 0
			}
		}
		var got []string
		same := true
		for ti, t := range w.tasks[i] {
			s := t.Status()
			got = append(got, s.String())
			if s != m.tasks[ti].status {
				same = false
			}
		}
		if !same {
			var want []string
			for _, t := range m.tasks {
				want = append(want, t.status.String())
			}
			cls := "abort-missing-or-wrong"
			if !o.aborted[i] {
				cls = "abort-unexpected"
				if m.ready {
					cls = "ready-change-aborted"
				}
			}
			w.bad(cls, "step %d %s: change %d (%s): task statuses %v, expected %v (abort expected: %v, model before %s)", step, p, i, m.desc, got, want, o.aborted[i], before)
			// adopt the implementation's statuses so that later steps are judged on their own
			for ti, t := range w.tasks[i] {
				if t.Status() != state.WaitStatus {
					m.tasks[ti].status = t.Status()
				}
			}
			m.ready = m.allTasksReady() || (m.ready && len(m.tasks) == 0)
		}
		c := w.chgs[i]
		if c.IsReady() != m.ready || c.ReadyTime().IsZero() == m.ready {
			w.bad("readiness", "step %d %s: change %d (%s): IsReady=%v ReadyTime zero=%v, expected ready=%v", step, p, i, m.desc, c.IsReady(), c.ReadyTime().IsZero(), m.ready)
		}
		if m.ready && o.aborted[i] && !c.ReadyTime().Equal(w.anchor) {
			w.bad("readiness", "step %d %s: change %d (%s) became ready by the abort, ready time %v is not the state clock's now", step, p, i, m.desc, c.ReadyTime())
		}
		// every task of a kept change is still there
		if len(c.Tasks()) != len(m.tasks) {
			w.bad("kept-change-lost-task", "step %d %s: kept change %d (%s) lists %d tasks, had %d", step, p, i, m.desc, len(c.Tasks()), len(m.tasks))
		}
		for ti, t := range w.tasks[i] {
			if st.Task(t.ID()) != t {
				w.bad("kept-change-lost-task", "step %d %s: task %d of kept change %d (%s) is gone", step, p, ti, i, m.desc)
			}
		}
	}
	// unlinked tasks and the total count
	want := 0
	for i, m := range w.model {
		if !m.removed {
			want += len(w.tasks[i])
		}
	}
	for ui, a := range ages {
		if time.Duration(a)*time.Hour > waits[p.PW] {
			w.unlGone[ui] = true
		}
		if !w.unlGone[ui] {
			want++
		}
	}
	if st.TaskCount() != want {
		cls := "task-left-behind"
		if st.TaskCount() < want {
			cls = "task-lost"
		}
		w.bad(cls, "step %d %s: %d tasks in the state, expected %d (tasks of kept changes + unlinked tasks younger than the retention period)", step, p, st.TaskCount(), want)
	}
	// expired notices and warnings are gone from the state (not merely hidden), unexpired ones stay
	if st.Notice(w.oldNotice) != nil {
		w.bad("expired-notice-kept", "step %d %s: the expired notice is still in the state", step, p)
	}
	if st.Notice(w.newNotice) == nil {
		w.bad("notice-lost", "step %d %s: the unexpired notice is gone", step, p)
	}
	found := false
	for _, x := range st.AllWarnings() {
		if x.String() == "expired warning" {
			w.bad("expired-warning-kept", "step %d %s: the expired warning is listed", step, p)
		}
		if x.String() == "fresh warning" {
			found = true
		}
	}
	if !found {
		w.bad("warning-lost", "step %d %s: the unexpired warning is gone", step, p)
	}
}

// final: exact membership of every task (a probe task waits for each: WaitTasks() resolves ids through the state's
// task map and yields nil for a deleted one), and the expired warning must be gone from the map (RemoveWarning fails)
func (w *world) final(c caseT) {
	st := w.st
	probe := st.NewTask("probe", "probe")
	type ref struct {
		t    *state.Task
		gone bool
		what string
	}
	var refs []ref
	for i, m := range w.model {
		for ti, t := range w.tasks[i] {
			refs = append(refs, ref{t, m.removed, fmt.Sprintf("task %d of change %d (%s)", ti, i, m.desc)})
		}
	}
	for ui, t := range w.unlinked {
		refs = append(refs, ref{t, w.unlGone[ui], fmt.Sprintf("unlinked task spawned %dh ago", ages[ui])})
	}
	for _, r := range refs {
		probe.WaitFor(r.t)
	}
	for i, t := range probe.WaitTasks() {
		r := refs[i]
		if (t == nil) != r.gone {
			if r.gone {
				w.bad("task-left-behind", "after %s: %s is still in the state, it should have been removed", c, r.what)
			} else {
				w.bad("task-lost", "after %s: %s was removed from the state", c, r.what)
			}
		}
	}
	if err := st.RemoveWarning("expired warning"); !errors.Is(err, state.ErrNoState) {
		w.bad("expired-warning-kept", "after %s: the expired warning is still in the state (RemoveWarning: %v)", c, err)
	}
	if err := st.RemoveWarning("fresh warning"); err != nil {
		w.bad("warning-lost", "after %s: the unexpired warning is gone (RemoveWarning: %v)", c, err)
	}
}

func runCase(c caseT) (*world, string) {
	w := build(c.Changes)
	defer w.dispose()
	for i, p := range c.Prunes {
		w.prune(p, i+1)
	}
	w.final(c)
	// outcome signature for the vacuity statistics
	var sig []string
	for i, m := range w.model {
		s := "kept"
		if m.removed {
			s = "removed"
		} else if fmt.Sprint(m.tasks) != fmt.Sprint(newModelChange(c.Changes[i]).tasks) {
			s = "aborted"
		}
		sig = append(sig, kindNames[m.desc.Kind]+":"+s)
	}
	sort.Strings(sig)
	return w, strings.Join(sig, ",")
}

// ---------------------------------------------------------------------------------------------------------------
// enumeration

func options(withAttr bool, readyOnly bool) []chgDesc {
	var res []chgDesc
	if !readyOnly {
		for k := kEmpty; k < kReadyDone; k++ {
			for _, s := range ages {
				res = append(res, chgDesc{Kind: k, Spawn: s, Ready: -1})
				if withAttr {
					res = append(res, chgDesc{Kind: k, Spawn: s, Ready: -1, Attr: true})
				}
			}
		}
	}
	for k := kReadyDone; k < nKinds; k++ {
		for _, r := range ages {
			res = append(res, chgDesc{Kind: k, Spawn: r, Ready: r})
			if r != 5 {
				res = append(res, chgDesc{Kind: k, Spawn: 5, Ready: r})
			}
		}
	}
	return res
}

// multisets of size n over opts with pairwise distinct ready ages
func configs(opts []chgDesc, n int) [][]chgDesc {
	var res [][]chgDesc
	var rec func(from int, cur []chgDesc)
	rec = func(from int, cur []chgDesc) {
		if len(cur) == n {
			res = append(res, append([]chgDesc(nil), cur...))
			return
		}
		for i := from; i < len(opts); i++ {
			ok := true
			if opts[i].Ready >= 0 {
				for _, c := range cur {
					if c.Ready == opts[i].Ready {
						ok = false
					}
				}
			}
			if ok {
				rec(i, append(cur, opts[i]))
			}
		}
	}
	rec(0, nil)
	return res
}

func fullGrid(preds []int, startsL []int) []pruneP {
	var res []pruneP
	for pw := range waits {
		for aw := range waits {
			for _, m := range maxes {
				for _, s := range startsL {
					for _, pr := range preds {
						res = append(res, pruneP{PW: pw, AW: aw, Max: m, Start: s, Pred: pr})
					}
				}
			}
		}
	}
	return res
}

func smallGrid() []pruneP {
	var res []pruneP
	for _, pw := range []int{0, 2} {
		for _, aw := range []int{0, 2} {
			for _, m := range []int{0, 1, 500} {
				for _, s := range []int{-1, 1} {
					for _, pr := range []int{0, 1} {
						res = append(res, pruneP{PW: pw, AW: aw, Max: m, Start: s, Pred: pr})
					}
				}
			}
		}
	}
	return res
}

func hasAttr(c []chgDesc) bool {
	for _, d := range c {
		if d.Attr {
			return true
		}
	}
	return false
}

func TestC09(t *testing.T) {
	r := eng.Start("C09", "model_checking", 200*time.Second, 15*time.Minute)
	r.Assume("reference: removed <=> ready and (ready longer than pruneWait or among the (readyCount - max) oldest ready); unfinished: removed only when task-less and older than pruneWait, aborted when older than abortWait counted from max(spawn, startOfOperation) unless it carries the attribute and the predicate says pending",
		"abort reference (every lane holding an unfinished task: pending->Hold, running->Abort, done->Undo) is exact for the shapes used: each task in exactly one lane, wait edges only inside a lane",
		"real time is read once per case; ages are whole hours, waits are (m+1/2) hours, a case runs for microseconds",
		"ready times are pairwise distinct initially; changes made ready by an abort share the ready time 'now' and the oldest-first check tolerates either choice among equal ready times",
		"expired/unexpired notices and warnings are a fixed fixture (1 hour on either side of the 7/28 day expiry)")

	report := func(c caseT, w *world) {
		for _, p := range w.problems {
			cc := c
			cc.Msg = p.msg
			r.Violation(p.class, p.msg+" ["+c.String()+"]", cc)
		}
	}
	if rc := r.ReplayCase(); rc != nil {
		var c caseT
		if err := json.Unmarshal(rc, &c); err != nil {
			eng.HarnessError("%v", err)
		}
		fmt.Printf("replay %s\n", c)
		w, sig := runCase(c)
		fmt.Printf("outcome: %s\n", sig)
		for _, p := range w.problems {
			fmt.Printf("   PROBLEM [%s] %s\n", p.class, p.msg)
		}
		report(c, w)
		r.Finish("replay")
	}

	nMix := r.Pick(2, 3)   // changes of any shape x full grid, one Prune
	nReady := r.Pick(3, 4) // finished changes only x (pruneWait, abortWait, max), one Prune
	nSeq2 := r.Pick(1, 2)  // changes x small grid x small grid
	nSeq3 := r.Pick(0, 1)  // changes x small grid ^3 (thorough)
	r.Info("bounds", map[string]interface{}{"mixed_changes": nMix, "finished_only_changes": nReady, "two_prune_changes": nSeq2, "three_prune_changes": nSeq3,
		"ages_h": ages, "waits": fmt.Sprint(waits), "max_ready": maxes, "start_of_operation": "zero,-1h,-3h", "predicate": "none,pending,not-pending",
		"shapes": kindNames, "full_grid": 4 * 4 * 4 * 3 * 3, "small_grid": len(smallGrid())})
	if r.Sharded(16) {
		r.Finish(rule)
	}
	// one thread of work per process (state.MockTime is process-global), short-lived garbage only
	debug.SetGCPercent(400)
	if os.Getenv("VERIF_SHARD") != "" {
		runtime.GOMAXPROCS(2)
	}

	item := 0
	capped := false
	exec := func(c caseT) {
		w, sig := runCase(c)
		r.Add("evaluations", 1)
		r.Add("traces_validated_against_impl", 1)
		r.Add("transitions", int64(len(c.Prunes)))
		r.Add("states", int64(len(c.Prunes)))
		if strings.Contains(sig, "removed") || strings.Contains(sig, "aborted") {
			r.Add("distinct_nontrivial", 1)
		}
		r.Distinct("outcome", sig)
		if w.predCalls > 0 {
			r.Add("cases_predicate_consulted", 1)
		}
		if len(w.problems) > 0 {
			report(c, w)
		}
		if r.WantSample() && len(c.Changes) >= 2 && (strings.Contains(sig, "removed") || strings.Contains(sig, "aborted")) && item%7 == 3 {
			r.Sample(map[string]interface{}{"case": c.String(), "outcome": sig})
		}
	}
	family := func(name string, cfgs [][]chgDesc, seqs func(cfg []chgDesc) [][]pruneP) {
		for _, cfg := range cfgs {
			mine := r.Mine(item)
			item++
			if !mine || capped {
				continue
			}
			if r.TimeUp() {
				r.Cap("time", "stopped in family "+name)
				capped = true
				continue
			}
			r.NoteCurrent(name + " " + caseT{Changes: cfg}.String())
			for _, ps := range seqs(cfg) {
				exec(caseT{Changes: cfg, Prunes: ps})
			}
			r.Add("configurations_"+name, 1)
			r.Add("states", 1)
		}
	}
	one := func(grid []pruneP) [][]pruneP {
		res := make([][]pruneP, len(grid))
		for i, p := range grid {
			res[i] = []pruneP{p}
		}
		return res
	}
	gridPred := one(fullGrid([]int{0, 1, 2}, starts))
	gridReady := one(fullGrid([]int{0}, []int{-1}))
	sg := smallGrid()
	var seq2, seq3 [][]pruneP
	for _, a := range sg {
		for _, b := range sg {
			seq2 = append(seq2, []pruneP{a, b})
		}
	}
	if nSeq3 > 0 {
		for _, a := range sg {
			for _, b := range sg {
				for _, c := range sg {
					seq3 = append(seq3, []pruneP{a, b, c})
				}
			}
		}
	}
	all := options(true, false)
	// the attribute only matters when a predicate is registered
	gridNoAttr := one(fullGrid([]int{0, 1}, starts))
	mixSeqs := func(cfg []chgDesc) [][]pruneP {
		if hasAttr(cfg) {
			return gridPred
		}
		return gridNoAttr // a predicate that says "pending" must not protect a change without the attribute
	}
	// the quick tier's families first (so that a capped thorough run still contains the quick one), then the larger
	// ones by size, so that a time cap cuts the largest
	ready := options(false, true)
	grid := func(g [][]pruneP) func([]chgDesc) [][]pruneP { return func([]chgDesc) [][]pruneP { return g } }
	for n := 0; n <= 3; n++ {
		family(fmt.Sprintf("finished-only-%d", n), configs(ready, n), grid(gridReady))
	}
	for n := 0; n <= 2; n++ {
		family(fmt.Sprintf("mixed-%d", n), configs(all, n), mixSeqs)
	}
	for n := 0; n <= 1; n++ {
		family(fmt.Sprintf("two-prunes-%d", n), configs(all, n), grid(seq2))
	}
	if r.Thorough() {
		family("finished-only-4", configs(ready, 4), grid(gridReady))
		family("two-prunes-2", configs(all, 2), grid(seq2))
		for n := 0; n <= nSeq3; n++ {
			family(fmt.Sprintf("three-prunes-%d", n), configs(all, n), grid(seq3))
		}
		family("mixed-3", configs(all, 3), mixSeqs)
	}
	r.Finish(rule)
}

const rule = "every multiset of changes (shape x spawn/ready age x attribute; distinct ready ages) up to the family's size bound, with the fixture of 5 unlinked tasks, 2 notices and 2 warnings, x every Prune parameter tuple (or sequence of 2-3 tuples) of the family's grid; after each Prune call the set of changes, all task statuses, readiness, the task count, notices and warnings are compared with the reference, after the last call the exact membership of every task; a case is non-trivial when at least one change was removed or aborted"
