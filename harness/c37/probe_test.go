package c37_test

import (
	"fmt"
	"testing"

	doublestar "github.com/bmatcuk/doublestar/v4"
	"github.com/snapcore/snapd/interfaces/prompting/patterns"
)

func TestProbe(t *testing.T) {
	for _, c := range [][2]string{
		{"/a/**", "/a"}, {"/a*/**", "/a"}, {"/a*/**", "/a/"}, {"/?*/**", "/a"}, {"/*?/**", "/a"}, {"/*/**", "/a"}, {"/*/**", "/"},
		{"/a/**/*", "/a"}, {"/a/**/*", "/a/"}, {"/a/*", "/a/"}, {"/a/**/**", "/a"}, {"/a/**/**", "/a/b"},
		{"/****", "/a/a"}, {"/***", "/a/a"}, {"/***", "/a"}, {"/**/**b", "/a/b"}, {"/**/*b", "/a/b"}, {"/**/***", "/a/a"},
		{"/a{**}", "/a/a"}, {"/a**", "/a/a"}, {"/**{}", "/a/a"}, {"/**{,}", "/a/a"}, {"//a", "/a"}, {"/a//b", "/a/b"}, {"/{,/}/a", "/a"},
		{"/a/**/", "/a"}, {"/a/**/", "/a/"}, {"/a/**{/,/b/}", "/a"}, {"/a/**/{,b/}", "/a"},
	} {
		d, err := doublestar.Match(c[0], c[1])
		m, err2 := patterns.PathPatternMatches(c[0], c[1])
		var vs []string
		if pp, err := patterns.ParsePathPattern(c[0]); err == nil {
			pp.RenderAllVariants(func(i int, v patterns.PatternVariant) {
				vm, _ := patterns.PathPatternMatches(v.String(), c[1])
				_, cerr := v.Compare(v, c[1])
				vs = append(vs, fmt.Sprintf("%s(match=%v regex=%v)", v.String(), vm, cerr == nil))
			})
		}
		fmt.Printf("%-14s %-8s doublestar=%v,%v PathPatternMatches=%v,%v variants=%v\n", c[0], c[1], d, err, m, err2, vs)
	}
}
