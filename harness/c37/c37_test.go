// C37 — path patterns match exactly their expansions; precedence is order-independent.
//
// Bounded exhaustive enumeration of every pattern made of ≤ K tokens of a covering token alphabet
// (literals, separators, '?', '*', '**', whole groups incl. nested and slash-carrying ones, escapes,
// raw '{' ',' '}' '[' for hand-made and malformed groups, multi-byte literals of 2/3/4 bytes bare, escaped and
// inside group alternatives) against every path of ≤ 4 segments over a small segment alphabet (plus segments
// carrying the escaped and the multi-byte characters). Oracles:
//
//	validity      ParsePathPattern accepts exactly what a reference scanner accepts (≤ 1000 expansions)
//	counts        NumVariants == number of variants rendered, indices 0..n-1, ≤ 1000, between the number of
//	              distinct and of all reference expansions; rendered set == normal forms of the reference
//	              brace expansion; normalisation of a variant is idempotent
//	match         PathPatternMatches(p, path) ⇔ ∃ rendered variant v: PathPatternMatches(v, path)
//	regex         for every variant: doublestar verdict == verdict of the variant's own regex (observed through
//	              Compare(v, v, path) succeeding) — the two matchers inside the package must agree
//	precedence    on the set V(path) of all pooled variants matching a path: Compare reflexive, antisymmetric,
//	              never 0 for different variants, transitive (tournament score sequence; a 3-cycle is extracted
//	              on failure), HighestPrecedencePattern gives the same answer for the list, its reverse, all
//	              rotations, both orders of every pair and all 6 orders of every triple (small sets);
//	specificity   replacing one literal by '?' or '*', or '?' by '*', never gives a more specific pattern.
package c37_test

import (
	"encoding/json"
	"errors"
	"fmt"
	"os"
	"reflect"
	"regexp"
	"runtime"
	"sort"
	"strings"
	"sync"
	"sync/atomic"
	"testing"
	"time"

	"github.com/snapcore/snapd/interfaces/prompting/patterns"
	eng "github.com/snapcore/snapd/verifengine"
)

// ------------------------------------------------------------------------------------------------
// alphabets

// first tokens (a pattern must start with '/'), and tokens for the following positions
var firstTokens = []string{"/a", "/b", "/", "/**"}
var restTokens = []string{"/a", "/b", "/", "b", "?", "*", "/**", "**",
	"{a,b}", "{,/}", "{/a,b/}", "{a,{b,ab}}", `\*`, `\?`, `\{`, `\}`, `\\`, "{", ",", "}", "["}

// the remaining escaped metacharacters (thorough tier): with the five above, every character the scanner or
// the variant parser treats specially has an escaped token: \* \? \{ \} \\ \[ \] \,
var moreEscapes = []string{`\[`, `\]`, `\,`}

// multi-byte literals: the package counts lengths in bytes in some places (render buffer, Length(),
// alreadyRendered) and reads runes in others (scanner, variant parser, '?' = one character), so every literal
// position must also be filled with text whose byte length differs from its character count. As tokens
// following any other token they stand before the first group, between groups and after the last group;
// the two group tokens put them inside alternatives (alternatives of 2 and 4 bytes / 1 and 2 characters;
// a multi-byte literal in front of a nested group inside an alternative); `\é` is an escaped multi-byte
// character (the backslash is unnecessary and is dropped in the variant).
//
//	é  U+00E9  2 bytes     €  U+20AC  3 bytes     𝄞  U+1D11E  4 bytes (thorough)
//	⁑  U+2051  3 bytes, the character the variant parser uses internally as its marker for '**' (thorough)
var uniTokens = []string{"é", "€", `\é`, "{é,€b}", "{é{a,b},€}"}
var uniTokensThorough = []string{"𝄞", "⁑"}

// the multi-byte tokens that are also used in the longest (5-token) patterns of the thorough tier
var uniTokensLong = []string{"é", "€", "{é,€b}"}

// tokens that are plain, group-free pattern text (used for the precedence pool and for generalisation)
var groupFree = map[string]bool{"/a": true, "/b": true, "/": true, "b": true, "?": true, "*": true, "/**": true, "**": true,
	`\*`: true, `\?`: true, `\{`: true, `\}`: true, `\\`: true, `\[`: true, `\]`: true, `\,`: true,
	"é": true, "€": true, `\é`: true, "𝄞": true, "⁑": true}

var pathSegs = []string{"a", "b", "ab", ""}

// segments with multi-byte characters: every pair of segments of uniSegs (with and without trailing '/'),
// and the longer ones as single / second segment
var uniSegs = []string{"a", "b", "", "é", "€", "éa", "éb", "aé", "é€", "€b"}
var uniRareSegs = []string{"bé", "éé", "€é", "€€", "a€", "b€", "éab", "éba", "éaa", "ébb", "aéb", "é€b", "€bé", "€ba"}
var uniSegsThorough = []string{"𝄞", "⁑", "a𝄞", "𝄞b", "é𝄞", "𝄞€", "a⁑", "⁑b", "é⁑", "⁑€", "⁑⁑", "𝄞⁑"}

// segments carrying the literal characters that escaped tokens stand for, so that "escaped literal" and
// "wildcard / group syntax" are told apart by some path
var extraSegs = []string{"a", "b", "ab", "", "*", "?", "{", "a*", "a?", "{a"}
var rareSegs = []string{"}", `\`, "[", "]", ",", "a}", `a\`, "a[", "a]", "a,", "b?", "b*"}

type pat struct {
	s      string
	tokens []string
}

func allPatterns(maxTokens int, restTokens []string) []pat {
	var res []pat
	prev := []pat{}
	for _, t := range firstTokens {
		prev = append(prev, pat{t, []string{t}})
	}
	res = append(res, prev...)
	for k := 2; k <= maxTokens; k++ {
		var cur []pat
		for _, p := range prev {
			for _, t := range restTokens {
				toks := append(append([]string{}, p.tokens...), t)
				cur = append(cur, pat{p.s + t, toks})
			}
		}
		res = append(res, cur...)
		prev = cur
	}
	// malformed starts
	res = append(res, pat{"", nil}, pat{"a", []string{"a"}}, pat{"{/a,/b}", []string{"{/a,/b}"}}, pat{"*", []string{"*"}}, pat{`\/a`, []string{`\/a`}},
		pat{`/a\`, []string{"/a", `\`}}, pat{`/a{b\`, []string{"/a", "{", "b", `\`}}, pat{`/a\\`, []string{"/a", `\\`}}, pat{"/a]", []string{"/a", "]"}}, pat{`/a\[`, []string{"/a", `\[`}})
	// dedup by string, keep the shortest token sequence
	seen := map[string]bool{}
	out := res[:0]
	for _, p := range res {
		if !seen[p.s] {
			seen[p.s] = true
			out = append(out, p)
		}
	}
	return out
}

func allPaths(thorough bool) []string {
	seen := map[string]bool{}
	var res []string
	add := func(segs []string, maxLen int) {
		prev := [][]string{{}}
		for k := 1; k <= maxLen; k++ {
			var cur [][]string
			for _, p := range prev {
				for _, s := range segs {
					cur = append(cur, append(append([]string{}, p...), s))
				}
			}
			for _, c := range cur {
				p := "/" + strings.Join(c, "/")
				if strings.Contains(p, "//") {
					continue // the kernel never reports paths with repeated separators; a final "" segment = directory
				}
				if !seen[p] {
					seen[p] = true
					res = append(res, p)
				}
			}
			prev = cur
		}
	}
	add(pathSegs, 4)
	add(extraSegs, 2)
	add(uniSegs, 2)
	rare := append(append([]string{}, rareSegs...), uniRareSegs...)
	if thorough {
		rare = append(rare, uniSegsThorough...)
	}
	for _, s := range rare {
		for _, p := range []string{"/" + s, "/" + s + "/", "/a/" + s, "/a/" + s + "/"} {
			if !seen[p] {
				seen[p] = true
				res = append(res, p)
			}
		}
	}
	return res
}

// ------------------------------------------------------------------------------------------------
// reference scanner / brace expansion (independent of the package)

type node struct {
	lit  string   // literal text, escapes kept verbatim
	alts [][]node // group: alternatives, each a sequence
}

const countCap = 1 << 40

type refParser struct {
	r   []rune
	pos int
	bad string
}

func (p *refParser) seq(depth int) []node {
	var out []node
	var lit []rune
	flush := func() {
		if len(lit) > 0 {
			out = append(out, node{lit: string(lit)})
			lit = nil
		}
	}
	for p.pos < len(p.r) && p.bad == "" {
		c := p.r[p.pos]
		switch c {
		case '\\':
			if p.pos+1 >= len(p.r) {
				p.bad = "trailing backslash"
				return nil
			}
			lit = append(lit, c, p.r[p.pos+1])
			p.pos += 2
		case '[', ']':
			p.bad = "unescaped bracket"
			return nil
		case '{':
			flush()
			p.pos++
			if depth+1 >= 1000 {
				p.bad = "too deep"
				return nil
			}
			var g node
			for {
				g.alts = append(g.alts, p.seq(depth+1))
				if p.bad != "" {
					return nil
				}
				if p.pos >= len(p.r) {
					p.bad = "unmatched {"
					return nil
				}
				c2 := p.r[p.pos]
				p.pos++
				if c2 == '}' {
					break
				}
				// c2 == ','
			}
			out = append(out, g)
		case '}':
			if depth == 0 {
				p.bad = "unmatched }"
				return nil
			}
			flush()
			return out
		case ',':
			if depth > 0 {
				flush()
				return out
			}
			lit = append(lit, c)
			p.pos++
		default:
			lit = append(lit, c)
			p.pos++
		}
	}
	flush()
	return out
}

func countSeq(s []node) int64 {
	n := int64(1)
	for _, x := range s {
		if x.alts == nil {
			continue
		}
		var sum int64
		for _, a := range x.alts {
			sum += countSeq(a)
			if sum > countCap {
				sum = countCap
			}
		}
		n *= sum
		if n > countCap {
			n = countCap
		}
	}
	return n
}

func expandSeq(s []node) []string {
	res := []string{""}
	for _, x := range s {
		var parts []string
		if x.alts == nil {
			parts = []string{x.lit}
		} else {
			for _, a := range x.alts {
				parts = append(parts, expandSeq(a)...)
			}
		}
		var next []string
		for _, r := range res {
			for _, p := range parts {
				next = append(next, r+p)
			}
		}
		res = next
	}
	return res
}

// expandSet returns the set of distinct expansions of s, or ok=false as soon as some prefix of s has more
// than limit distinct expansions (then s has more than limit distinct expansions too: fixing the rest of
// the string maps different prefixes to different strings).
func expandSet(s []node, limit int) (set map[string]bool, ok bool) {
	res := map[string]bool{"": true}
	for _, x := range s {
		var parts map[string]bool
		if x.alts == nil {
			parts = map[string]bool{x.lit: true}
		} else {
			parts = map[string]bool{}
			for _, a := range x.alts {
				as, ok := expandSet(a, limit)
				if !ok {
					return nil, false
				}
				for e := range as {
					parts[e] = true
				}
				if len(parts) > limit {
					return nil, false
				}
			}
		}
		if len(parts) == 1 {
			for pt := range parts {
				if pt == "" {
					continue
				}
				next := make(map[string]bool, len(res))
				for r := range res {
					next[r+pt] = true
				}
				res = next
			}
			continue
		}
		next := map[string]bool{}
		for r := range res {
			for pt := range parts {
				next[r+pt] = true
			}
			if len(next) > limit {
				return nil, false
			}
		}
		res = next
	}
	return res, true
}

// refParse returns the AST and "" or the reason the pattern is malformed (count limit not included).
func refParse(s string) ([]node, string) {
	if s == "" {
		return nil, "empty"
	}
	if s[0] != '/' {
		return nil, "no leading slash"
	}
	// brackets are refused by the scanner before any structure is looked at
	p := &refParser{r: []rune(s)}
	ast := p.seq(0)
	if p.bad != "" {
		return nil, p.bad
	}
	if p.pos < len(p.r) {
		return nil, "unmatched }"
	}
	return ast, ""
}

// ------------------------------------------------------------------------------------------------
// construct classes
//
// Constructs on which the pattern as a whole (matched by the doublestar library, which expands groups itself)
// and its rendered variants (normalised by parsePatternVariant) are known to disagree. A pattern using one
// of them is still checked, but its match/variant disagreements are reported once per (law, class) with the
// smallest example, instead of once per input. A pattern using none of them is in the core domain.

var escapedPair = regexp.MustCompile(`\\.`)
var reWildBeforeFinalDoublestar = regexp.MustCompile(`[*?][^/]*/\*\*$`)
var reDoublestarThenStars = regexp.MustCompile(`/\*\*(/\*)+$`)
var reStarBrace = regexp.MustCompile(`\*[{}]|[{}]\*`)

func constructClass(raw string, expansions []string) string {
	mask := func(x string) string { return escapedPair.ReplaceAllString(x, "EE") }
	has := func(f func(e string) bool) bool {
		for _, e := range expansions {
			if f(mask(e)) {
				return true
			}
		}
		return false
	}
	switch {
	case has(func(e string) bool { return strings.Contains(e, "//") }):
		return "double-slash" // variants collapse repeated separators, doublestar does not
	case has(func(e string) bool { return strings.Contains(e, "***") }):
		return "three-or-more-stars" // '***' is reduced to '*', '****' to '**'; doublestar reads both as '*'
	case reStarBrace.MatchString(mask(raw)):
		return "star-next-to-brace" // doublestar classifies '**' before expanding groups, variants after
	case has(func(e string) bool { return strings.Contains(e, "/**/**") || strings.Contains(e, "/**/*/**") }):
		// '/**/**x' is reduced to '/*x' (and '/**/*/**x' to '/*/*x', because '/**/*/' is first reordered to
		// '/*/**/'); doublestar does not special-case a final '/**/**'
		return "consecutive-doublestars"
	case has(func(e string) bool { return reDoublestarThenStars.MatchString(e) }):
		return "doublestar-star-at-end" // a final '/**/*' is reduced to '/**', which also matches the directory itself
	case has(func(e string) bool { return reWildBeforeFinalDoublestar.MatchString(e) }):
		return "wildcard-segment-before-final-doublestar" // doublestar: '/a*/**' does not match '/a' although '/a/**' does
	case !strings.HasSuffix(raw, "/") && has(func(e string) bool { return strings.HasSuffix(e, "/**/") }):
		// the "ends in '/' ⇒ directories only" guard of PathPatternMatches looks at the last character of the
		// unexpanded pattern; doublestar lets '/a/**/' match '/a'
		return "group-hides-final-doublestar-slash"
	}
	return ""
}

// ------------------------------------------------------------------------------------------------
// cases / violations

type vCase struct {
	Kind     string   `json:"kind"` // pattern | variant | precedence | generalise
	Pattern  string   `json:"pattern,omitempty"`
	Path     string   `json:"path,omitempty"`
	Variants []string `json:"variants,omitempty"` // precedence: group-free patterns whose single variant is meant
	Other    string   `json:"other,omitempty"`    // generalise: the generalised pattern
}

type viol struct {
	law, key, msg string
	cs            vCase
	size          int
	class         bool // key names a class of inputs (law + construct), not one input
	count         int
}

// collector: violations of a named construct class are merged under one key per (law, class) with the
// smallest failing input as the replay case; other violations are keyed by the concrete input and, per law,
// only the `keep` smallest are forwarded (all are counted). Deterministic whatever the goroutine schedule.
type collector struct {
	mu    sync.Mutex
	byKey map[string]*viol
	count map[string]int
	keep  int
}

// debugging aid: C37_DUMP=<file> writes every violating input (not only the kept smallest ones)
var dumpFile *os.File

func init() {
	if p := os.Getenv("C37_DUMP"); p != "" {
		dumpFile, _ = os.Create(p)
	}
}

func newCollector(keep int) *collector {
	return &collector{byKey: map[string]*viol{}, count: map[string]int{}, keep: keep}
}

func violLess(a, b *viol) bool {
	if a.size != b.size {
		return a.size < b.size
	}
	return a.key+a.msg < b.key+b.msg
}

func (c *collector) add(law, id, msg string, cs vCase) { c.addClass(law, "", id, msg, cs) }

// addClass: class == "" means the input belongs to no known construct class (concrete key).
func (c *collector) addClass(law, class, id, msg string, cs vCase) {
	v := &viol{law: law, msg: msg, cs: cs, size: len(id), count: 1}
	if class != "" {
		v.key, v.class = law+":class:"+class, true
	} else {
		v.key = law + ":" + strings.ReplaceAll(id, " ", "␣")
	}
	c.mu.Lock()
	defer c.mu.Unlock()
	c.count[law]++
	if dumpFile != nil {
		fmt.Fprintf(dumpFile, "%s\t%s\t%s\t%s\t%s\t%s\n", law, class, cs.Pattern, cs.Other, cs.Path, strings.Join(cs.Variants, " "))
	}
	old := c.byKey[v.key]
	if old == nil {
		c.byKey[v.key] = v
		return
	}
	old.count++
	if violLess(v, old) {
		v.count = old.count
		c.byKey[v.key] = v
	}
}

func (c *collector) flush(r *eng.Run) {
	perLaw := map[string][]*viol{}
	for _, v := range c.byKey {
		if v.class {
			r.Violation(v.key, fmt.Sprintf("%s (%d inputs of this class fail this law in this run)", v.msg, v.count), v.cs)
		} else {
			perLaw[v.law] = append(perLaw[v.law], v)
		}
	}
	for law, l := range perLaw {
		sort.Slice(l, func(i, j int) bool { return violLess(l[i], l[j]) })
		for i, v := range l {
			if i >= c.keep {
				break
			}
			r.Violation(v.key, fmt.Sprintf("%s (law %s: %d violating inputs outside the named classes in this run)", v.msg, law, len(l)), v.cs)
		}
	}
	if len(c.count) > 0 {
		r.Info("violating_inputs_per_law", c.count)
		classes := map[string]int{}
		for _, v := range c.byKey {
			if v.class {
				classes[v.key] = v.count
			}
		}
		r.Info("violating_inputs_per_class", classes)
	}
}

// ------------------------------------------------------------------------------------------------
// helpers around the package under test

// renderTimeout is a watchdog, not an oracle on speed: enumerating ≤ 1000 variants takes well under a
// millisecond. renderAllVariants does not advance to the next variant when a rendered string fails to parse
// ("should never occur"), so a change that makes the renderer emit an unparseable string turns the
// enumeration into an endless loop; that is reported as a violation (the enumeration never ends) instead
// of hanging the check. After the first such report the run is cut short (renderAborted). The watchdog looks
// at whole work items (one pattern with all its renderings) from outside: handing every rendering to a
// goroutine of its own made pass A several times slower on a loaded machine.
const renderTimeout = 10 * time.Minute // generous: under load 200+ a healthy item can stall for a long time; only a real endless loop should trip this

var renderAborted int32

func render(pp *patterns.PathPattern) (vs []patterns.PatternVariant, idxOK bool) {
	idxOK = true
	pp.RenderAllVariants(func(i int, v patterns.PatternVariant) {
		if i != len(vs) {
			idxOK = false
		}
		vs = append(vs, v)
		if len(vs) > 5000 {
			panic("RenderAllVariants produced more than 5000 variants (limit is 1000); enumeration stopped")
		}
	})
	return vs, idxOK
}

// watchedFor is eng.ParallelFor plus the watchdog: f(i) for every i < n on NumCPU workers; a worker that stays
// on one item for longer than renderTimeout is abandoned (it spins until the process exits), no new items are
// handed out, and the indices of the items that never returned are reported to the caller.
func watchedFor(n int, f func(i int)) (stuck []int) {
	w := runtime.NumCPU()
	if w > n {
		w = n
	}
	if w < 1 {
		return nil
	}
	type slot struct {
		idx, since int64
		_          [6]int64
	}
	slots := make([]slot, w)
	next := int64(-1)
	var stop int32
	done := make(chan int, w)
	for k := 0; k < w; k++ {
		slots[k].idx = -1
		go func(k int) {
			defer func() { done <- k }()
			for atomic.LoadInt32(&stop) == 0 {
				i := atomic.AddInt64(&next, 1)
				if i >= int64(n) {
					return
				}
				atomic.StoreInt64(&slots[k].since, time.Now().UnixNano())
				atomic.StoreInt64(&slots[k].idx, i)
				f(int(i))
				atomic.StoreInt64(&slots[k].idx, -1)
			}
		}(k)
	}
	tick := time.NewTicker(2 * time.Second)
	defer tick.Stop()
	isStuck := make([]bool, w)
	for finished := 0; finished+len(stuck) < w; {
		select {
		case <-done:
			finished++
		case <-tick.C:
			now := time.Now().UnixNano()
			for k := range slots {
				if isStuck[k] {
					continue
				}
				// `since` is written before `idx`: an index read here is never paired with an older start time
				i := atomic.LoadInt64(&slots[k].idx)
				if i >= 0 && now-atomic.LoadInt64(&slots[k].since) > int64(renderTimeout) {
					isStuck[k] = true
					stuck = append(stuck, int(i))
					atomic.StoreInt32(&stop, 1)
					atomic.StoreInt32(&renderAborted, 1)
				}
			}
		}
	}
	return stuck
}

// variantOf parses a group-free pattern and returns its single variant.
func variantOf(s string) (patterns.PatternVariant, error) {
	pp, err := patterns.ParsePathPattern(s)
	if err != nil {
		return patterns.PatternVariant{}, err
	}
	vs, _ := render(pp)
	if len(vs) != 1 {
		return patterns.PatternVariant{}, fmt.Errorf("%q renders %d variants", s, len(vs))
	}
	return vs[0], nil
}

func regexMatches(v patterns.PatternVariant, path string) bool {
	_, err := v.Compare(v, path)
	return err == nil
}

type bitset []uint64

func newBitset(n int) bitset    { return make(bitset, (n+63)/64) }
func (b bitset) set(i int)      { b[i/64] |= 1 << uint(i%64) }
func (b bitset) get(i int) bool { return b[i/64]&(1<<uint(i%64)) != 0 }

type variantInfo struct {
	v       patterns.PatternVariant
	dm, rm  bitset // doublestar verdicts / regex verdicts per path index
	pool    bool   // member of the precedence pool
	minToks int
	fp      string // component fingerprint of the first variant seen with this string
	from    string // pattern that rendered it
}

type checker struct {
	r       *eng.Run
	col     *collector
	paths   []string
	pathIdx map[string]int

	mu       sync.Mutex
	variants map[string]*variantInfo

	sameStringCompared int64

	nf [256]nfShard // normal forms of group-free strings, see normalForm
}

// fingerprint reads the (unexported) component list of a variant by reflection. It is only used to decide
// when two variants with the same string deserve the observable comparison below; "" if unavailable.
func fingerprint(v patterns.PatternVariant) string {
	comps := reflect.ValueOf(v).FieldByName("components")
	if !comps.IsValid() || comps.Kind() != reflect.Slice {
		return ""
	}
	var b strings.Builder
	for i := 0; i < comps.Len(); i++ {
		c := comps.Index(i)
		if c.Kind() != reflect.Struct || c.NumField() < 2 || c.Field(0).Kind() != reflect.Int || c.Field(1).Kind() != reflect.String {
			return ""
		}
		fmt.Fprintf(&b, "%d:%q,", c.Field(0).Int(), c.Field(1).String())
	}
	return b.String()
}

// variant registers a rendered variant. The variant string is the variant's identity (rules are stored and
// compared by it): two variants with the same string — of one pattern or of different patterns — must be
// the same variant, i.e. match the same paths and have equal precedence.
func (c *checker) variant(v patterns.PatternVariant, toks int, from string) *variantInfo {
	c.mu.Lock()
	vi := c.variants[v.String()]
	if vi == nil {
		vi = &variantInfo{v: v, minToks: toks, fp: fingerprint(v), from: from}
		c.variants[v.String()] = vi
	}
	if toks < vi.minToks {
		vi.minToks = toks
	}
	first, firstFP, firstFrom := vi.v, vi.fp, vi.from
	c.mu.Unlock()
	if fp := fingerprint(v); fp != firstFP {
		atomic.AddInt64(&c.sameStringCompared, 1)
		for _, path := range c.paths {
			m1, m2 := regexMatches(first, path), regexMatches(v, path)
			x := 0
			if m1 && m2 {
				x, _ = first.Compare(v, path)
			}
			if m1 != m2 || x != 0 {
				c.col.add("same-string-different-variant", v.String()+"@"+path,
					fmt.Sprintf("pattern %q and pattern %q both render a variant %q, but on %q one matches=%v, the other matches=%v, Compare=%d: the variant string does not identify the expansion", firstFrom, from, v.String(), path, m1, m2, x),
					vCase{Kind: "pattern", Pattern: from, Other: firstFrom, Path: path})
				break
			}
		}
	}
	return vi
}

type patResult struct {
	valid    bool
	pp       *patterns.PathPattern
	variants []string
	class    string // construct class ("" = core domain)
}

// checkPattern: validity, counts, expansion laws for one pattern (no paths yet).
func (c *checker) checkPattern(p pat) (res patResult) {
	cs := vCase{Kind: "pattern", Pattern: p.s}
	defer func() {
		if e := recover(); e != nil {
			c.col.add("panic", p.s, fmt.Sprintf("panic on pattern %q: %v", p.s, e), cs)
			res = patResult{}
		}
	}()
	if atomic.LoadInt32(&renderAborted) != 0 {
		return patResult{}
	}
	ast, bad := refParse(p.s)
	var raw int64
	if bad == "" {
		raw = countSeq(ast)
	}
	pp, err := patterns.ParsePathPattern(p.s)
	if bad != "" {
		if err == nil {
			c.col.add("invalid-accepted", p.s, fmt.Sprintf("ParsePathPattern(%q) succeeds; reference scanner: %s", p.s, bad), cs)
		} else if pp != nil {
			c.col.add("invalid-accepted", p.s, fmt.Sprintf("ParsePathPattern(%q) failed but returned a pattern", p.s), cs)
		}
		c.r.Distinct("reject_reason", bad)
		return patResult{}
	}
	// distinct reference expansions (nil when there are more than 2000, i.e. more than the limit)
	var exp []string
	distinct := int64(-1)
	if set, ok := expandSet(ast, 2000); ok {
		for e := range set {
			exp = append(exp, e)
		}
		sort.Strings(exp)
		distinct = int64(len(exp))
	}
	if err != nil {
		if distinct >= 0 && distinct <= 1000 {
			c.col.add("valid-rejected", p.s, fmt.Sprintf("ParsePathPattern(%.200q): %v; reference: well-formed with %d distinct expansions (%d counting repeats)", p.s, err, distinct, raw), cs)
		} else {
			c.r.Distinct("reject_reason", "too many expansions")
		}
		return patResult{}
	}
	// accepted ⇒ 0 < NumVariants ≤ limit, and the pattern really has at most `limit` distinct expansions
	n := pp.NumVariants()
	if distinct < 0 {
		c.col.add("limit-exceeded", p.s, fmt.Sprintf("%.200q is accepted (NumVariants()=%d) although it has more than 2000 distinct expansions; limit is 1000", p.s, n), cs)
		return patResult{}
	}
	if n <= 0 || n > 1000 {
		c.col.add("count-out-of-range", p.s, fmt.Sprintf("%.200q is accepted with NumVariants()=%d; want 0 < n <= 1000 (reference: %d distinct expansions)", p.s, n, distinct), cs)
		return patResult{} // do not try to enumerate
	}
	vs, idxOK := render(pp)
	if !idxOK || len(vs) != n {
		c.col.add("count-vs-rendered", p.s, fmt.Sprintf("%.200q: NumVariants()=%d but %d variants rendered (indices sequential: %v)", p.s, n, len(vs), idxOK), cs)
	}
	if int64(n) < distinct || int64(n) > raw {
		c.col.add("count-vs-reference", p.s, fmt.Sprintf("%.200q: NumVariants()=%d; reference expansion has %d distinct strings, %d counting repeats", p.s, n, distinct, raw), cs)
	}
	res = patResult{valid: true, pp: pp}
	res.class = constructClass(p.s, exp)
	got := map[string]bool{}
	for _, v := range vs {
		got[v.String()] = true
		res.variants = append(res.variants, v.String())
		c.variant(v, len(p.tokens), p.s)
	}
	// rendered set == normal forms of the reference expansion
	{
		want := map[string]bool{}
		for _, e := range exp {
			nf, err := c.normalForm(e, len(p.tokens), true)
			if err != nil {
				c.col.add("expansion-unparseable", p.s, fmt.Sprintf("%q: reference expansion %q is refused: %v", p.s, e, err), cs)
				continue
			}
			want[nf] = true
		}
		for w := range want {
			if !got[w] {
				c.col.add("expansion-missing", p.s, fmt.Sprintf("%q: expansion %q (normal form) is not among the rendered variants %v", p.s, w, res.variants), cs)
			}
		}
		for g := range got {
			if !want[g] {
				c.col.add("expansion-extra", p.s, fmt.Sprintf("%q: rendered variant %q is no expansion of the pattern (reference: %v)", p.s, g, exp), cs)
			}
		}
	}
	// normalisation is idempotent
	for _, v := range vs {
		nf, err := c.normalForm(v.String(), 0, false)
		if err != nil || nf != v.String() {
			c.col.add("variant-not-normal", p.s+"→"+v.String(), fmt.Sprintf("%q: variant %q re-parses to %q, %v", p.s, v.String(), nf, err), cs)
		}
	}
	return res
}

// normalForm returns the string of the single variant of the group-free pattern e, as computed by the package
// (ParsePathPattern + RenderAllVariants). It is a function of e alone and expansions repeat across patterns
// (millions of patterns, far fewer distinct expansions), so the result is computed once per distinct string
// and remembered; with register the variant is also entered into the variant table (same-string law, pool).
func (c *checker) normalForm(e string, toks int, register bool) (string, error) {
	h := uint32(2166136261)
	for i := 0; i < len(e); i++ {
		h = (h ^ uint32(e[i])) * 16777619
	}
	sh := &c.nf[h%uint32(len(c.nf))]
	sh.mu.Lock()
	ent, ok := sh.m[e]
	sh.mu.Unlock()
	if ok {
		if ent.err != "" {
			return "", errors.New(ent.err)
		}
		if !register {
			return ent.nf, nil
		}
		c.mu.Lock()
		vi := c.variants[ent.nf]
		if vi != nil && toks < vi.minToks {
			vi.minToks = toks
		}
		c.mu.Unlock()
		if vi != nil {
			return ent.nf, nil
		}
	}
	ve, err := variantOf(e)
	if err != nil {
		ent = nfEntry{err: err.Error()}
	} else {
		if register {
			c.variant(ve, toks, e)
		}
		ent = nfEntry{nf: ve.String()}
	}
	sh.mu.Lock()
	if sh.m == nil {
		sh.m = map[string]nfEntry{}
	}
	sh.m[e] = ent
	sh.mu.Unlock()
	return ent.nf, err
}

type nfEntry struct{ nf, err string }

type nfShard struct {
	mu sync.Mutex
	m  map[string]nfEntry
	_  [5]int64
}

// checkVariantPaths: both matchers on every path (fills the bitsets).
func (c *checker) checkVariantPaths(vi *variantInfo) (evals int64) {
	vs := vi.v.String()
	defer func() {
		if e := recover(); e != nil {
			c.col.add("panic", vs, fmt.Sprintf("panic on variant %q: %v", vs, e), vCase{Kind: "variant", Pattern: vs})
		}
	}()
	vi.dm, vi.rm = newBitset(len(c.paths)), newBitset(len(c.paths))
	for i, path := range c.paths {
		dm, err := patterns.PathPatternMatches(vs, path)
		if err != nil {
			c.col.add("match-error", vs+"@"+path, fmt.Sprintf("PathPatternMatches(%q,%q): %v", vs, path, err), vCase{Kind: "variant", Pattern: vs, Path: path})
			continue
		}
		rm := regexMatches(vi.v, path)
		if dm {
			vi.dm.set(i)
		}
		if rm {
			vi.rm.set(i)
		}
		evals++
		if dm && !rm {
			c.col.add("regex-misses-match", vs+"@"+path, fmt.Sprintf("variant %q matches %q (PathPatternMatches) but its own regex does not: Compare/HighestPrecedencePattern fail with an internal error", vs, path),
				vCase{Kind: "variant", Pattern: vs, Path: path})
		}
		// documented directory rules of PathPatternMatches
		if dm && strings.HasSuffix(vs, "/") && !strings.HasSuffix(path, "/") {
			c.col.add("dir-pattern-matches-file", vs+"@"+path, fmt.Sprintf("variant %q ends in '/' but matches %q which does not", vs, path), vCase{Kind: "variant", Pattern: vs, Path: path})
		}
		if dm && !strings.HasSuffix(vs, "/") && !strings.HasSuffix(path, "/") {
			if j, ok := c.pathIdx[path+"/"]; ok {
				dm2, _ := patterns.PathPatternMatches(vs, c.paths[j])
				if !dm2 {
					c.col.add("file-pattern-misses-dir", vs+"@"+path, fmt.Sprintf("variant %q (no trailing '/') matches %q but not %q", vs, path, path+"/"), vCase{Kind: "variant", Pattern: vs, Path: path})
				}
			}
		}
		if rm && !dm {
			// not judged: Compare is only defined on variants that match the path; recorded per construct class
			cl := constructClass(vs, []string{vs})
			if cl == "" {
				cl = "core"
			}
			c.r.Add("observed_regex_matches_where_doublestar_does_not:"+cl, 1)
			if cl == "core" {
				c.r.Distinct("observed_regex_only_core_example", vs+"@"+path)
			}
		}
	}
	return evals
}

// checkPatternPaths: pattern matches ⇔ some variant matches.
func (c *checker) checkPatternPaths(p pat, res patResult) (evals, matched int64) {
	defer func() {
		if e := recover(); e != nil {
			c.col.add("panic", p.s, fmt.Sprintf("panic matching pattern %q: %v", p.s, e), vCase{Kind: "pattern", Pattern: p.s})
		}
	}()
	infos := make([]*variantInfo, len(res.variants))
	for i, v := range res.variants {
		infos[i] = c.variants[v]
	}
	for i, path := range c.paths {
		m0, err := patterns.PathPatternMatches(p.s, path)
		if err != nil {
			c.col.add("match-error", p.s+"@"+path, fmt.Sprintf("PathPatternMatches(%q,%q): %v", p.s, path, err), vCase{Kind: "pattern", Pattern: p.s, Path: path})
			continue
		}
		m0b, err := res.pp.Match(path)
		if err != nil || m0b != m0 {
			c.col.add("match-method", p.s+"@"+path, fmt.Sprintf("PathPattern(%q).Match(%q)=%v,%v but PathPatternMatches=%v", p.s, path, m0b, err, m0), vCase{Kind: "pattern", Pattern: p.s, Path: path})
		}
		m1 := false
		var by string
		for _, vi := range infos {
			if vi.dm != nil && vi.dm.get(i) {
				m1 = true
				by = vi.v.String()
				break
			}
		}
		evals++
		if m0 {
			matched++
		}
		if m0 && !m1 {
			c.col.addClass("match-without-variant", res.class, p.s+"@"+path, fmt.Sprintf("pattern %q matches %q but none of its variants %v does", p.s, path, res.variants), vCase{Kind: "pattern", Pattern: p.s, Path: path})
		}
		if m1 && !m0 {
			c.col.addClass("variant-without-match", res.class, p.s+"@"+path, fmt.Sprintf("variant %q of pattern %q matches %q but the pattern does not", by, p.s, path), vCase{Kind: "pattern", Pattern: p.s, Path: path})
		}
	}
	return evals, matched
}

// precedence laws on one path for the given variants (all must match the path by both matchers).
func (c *checker) checkPrecedence(path string, vs []patterns.PatternVariant, tripleMax int) (pairs, triples int64) {
	n := len(vs)
	names := make([]string, n)
	for i, v := range vs {
		names[i] = v.String()
	}
	cs := func(idx ...int) vCase {
		c := vCase{Kind: "precedence", Path: path}
		for _, i := range idx {
			c.Variants = append(c.Variants, names[i])
		}
		return c
	}
	defer func() {
		if e := recover(); e != nil {
			c.col.add("panic", "precedence@"+path, fmt.Sprintf("panic in precedence on %q: %v", path, e), vCase{Kind: "precedence", Path: path, Variants: names})
		}
	}()
	cmp := make([]int8, n*n)
	for i := 0; i < n; i++ {
		for j := 0; j < n; j++ {
			x, err := vs[i].Compare(vs[j], path)
			if err != nil {
				c.col.add("compare-error", names[i]+"~"+names[j]+"@"+path, fmt.Sprintf("Compare(%q,%q,%q): %v", names[i], names[j], path, err), cs(i, j))
			}
			cmp[i*n+j] = int8(x)
			pairs++
		}
	}
	score := make([]int, n)
	okTournament := true
	for i := 0; i < n; i++ {
		if cmp[i*n+i] != 0 {
			c.col.add("compare-reflexive", names[i]+"@"+path, fmt.Sprintf("Compare(%q,itself,%q)=%d", names[i], path, cmp[i*n+i]), cs(i))
		}
		for j := 0; j < n; j++ {
			if i == j {
				continue
			}
			if cmp[i*n+j] > 0 {
				score[i]++
			}
			if i < j {
				if cmp[i*n+j] != -cmp[j*n+i] {
					okTournament = false
					c.col.add("compare-antisymmetric", names[i]+"~"+names[j]+"@"+path, fmt.Sprintf("Compare(%q,%q,%q)=%d but reverse=%d", names[i], names[j], path, cmp[i*n+j], cmp[j*n+i]), cs(i, j))
				}
				if cmp[i*n+j] == 0 {
					okTournament = false
					c.col.add("compare-tie", names[i]+"~"+names[j]+"@"+path, fmt.Sprintf("different variants %q and %q have equal precedence on %q: the winner depends on the order given", names[i], names[j], path), cs(i, j))
				}
				// both orders of the pair through HighestPrecedencePattern
				h1, e1 := patterns.HighestPrecedencePattern([]patterns.PatternVariant{vs[i], vs[j]}, path)
				h2, e2 := patterns.HighestPrecedencePattern([]patterns.PatternVariant{vs[j], vs[i]}, path)
				if e1 != nil || e2 != nil || h1.String() != h2.String() {
					c.col.add("order-dependent-pair", names[i]+"~"+names[j]+"@"+path, fmt.Sprintf("HighestPrecedencePattern([%q,%q],%q)=%q,%v but with the order swapped %q,%v", names[i], names[j], path, h1.String(), e1, h2.String(), e2), cs(i, j))
				}
			}
		}
	}
	// transitivity: a tournament is transitive iff its score sequence is 0,1,..,n-1
	if okTournament && n > 2 {
		sorted := append([]int{}, score...)
		sort.Ints(sorted)
		transitive := true
		for i, s := range sorted {
			if s != i {
				transitive = false
			}
		}
		if !transitive {
		search:
			for i := 0; i < n; i++ {
				for j := 0; j < n; j++ {
					for k := 0; k < n; k++ {
						if cmp[i*n+j] > 0 && cmp[j*n+k] > 0 && cmp[k*n+i] > 0 {
							c.col.add("compare-cycle", names[i]+"~"+names[j]+"~"+names[k]+"@"+path,
								fmt.Sprintf("on %q: %q > %q > %q > %q", path, names[i], names[j], names[k], names[i]), cs(i, j, k))
							break search
						}
					}
				}
			}
		}
	}
	// the whole list: as given, reversed, every rotation
	if n > 1 {
		best := -1
		for i := 0; i < n; i++ {
			if score[i] == n-1 {
				best = i
			}
		}
		orders := [][]patterns.PatternVariant{vs}
		rev := make([]patterns.PatternVariant, n)
		for i := range vs {
			rev[n-1-i] = vs[i]
		}
		orders = append(orders, rev)
		for k := 1; k < n; k++ {
			orders = append(orders, append(append([]patterns.PatternVariant{}, vs[k:]...), vs[:k]...))
		}
		var first string
		for oi, o := range orders {
			h, err := patterns.HighestPrecedencePattern(o, path)
			if err != nil {
				c.col.add("highest-error", "all@"+path, fmt.Sprintf("HighestPrecedencePattern(%d variants,%q): %v", n, path, err), cs())
				break
			}
			if oi == 0 {
				first = h.String()
				if best >= 0 && first != names[best] {
					c.col.add("highest-not-maximum", "all@"+path, fmt.Sprintf("on %q HighestPrecedencePattern chose %q but %q beats every other variant pairwise", path, first, names[best]), vCase{Kind: "precedence", Path: path, Variants: names})
				}
			} else if h.String() != first {
				c.col.add("order-dependent-list", "all@"+path, fmt.Sprintf("on %q HighestPrecedencePattern chose %q for one order and %q for another order of the same %d variants", path, first, h.String(), n), vCase{Kind: "precedence", Path: path, Variants: names})
				break
			}
		}
	}
	// every triple in all 6 orders (small sets only; larger sets are covered by the tournament argument)
	if n <= tripleMax {
		perms := [][3]int{{0, 1, 2}, {0, 2, 1}, {1, 0, 2}, {1, 2, 0}, {2, 0, 1}, {2, 1, 0}}
		for i := 0; i < n; i++ {
			for j := i + 1; j < n; j++ {
				for k := j + 1; k < n; k++ {
					t := [3]int{i, j, k}
					var first string
					for pi, pm := range perms {
						h, err := patterns.HighestPrecedencePattern([]patterns.PatternVariant{vs[t[pm[0]]], vs[t[pm[1]]], vs[t[pm[2]]]}, path)
						if err != nil {
							c.col.add("highest-error", names[i]+"~"+names[j]+"~"+names[k]+"@"+path, fmt.Sprintf("HighestPrecedencePattern: %v", err), cs(i, j, k))
							break
						}
						if pi == 0 {
							first = h.String()
						} else if h.String() != first {
							c.col.add("order-dependent-triple", names[i]+"~"+names[j]+"~"+names[k]+"@"+path,
								fmt.Sprintf("on %q the choice among %q,%q,%q depends on their order (%q vs %q)", path, names[i], names[j], names[k], first, h.String()), cs(i, j, k))
							break
						}
					}
					triples++
				}
			}
		}
	}
	return pairs, triples
}

// generalisations of a group-free token sequence: one literal → '?' or '*', one '?' → '*'
func generalisations(tokens []string) []string {
	var out []string
	repl := map[string][]string{"/a": {"/?", "/*"}, "/b": {"/?", "/*"}, "b": {"?", "*"}, "?": {"*"},
		// one multi-byte character is one character: '?' must cover it, and a literal é/€/𝄞/⁑ must beat '?' and '*'
		"é": {"?", "*"}, "€": {"?", "*"}, `\é`: {"?", "*"}, "𝄞": {"?", "*"}, "⁑": {"?", "*"}}
	wild := map[string]bool{"?": true, "*": true, "**": true, "/**": true}
	for i, t := range tokens {
		if i > 0 && wild[tokens[i-1]] {
			// once a wildcard precedes, "earliest restriction" may legitimately rank the widened pattern
			// higher (e.g. /*b vs /*? = /?*): the law is only claimed while the prefixes consume the same text
			break
		}
		for _, g := range repl[t] {
			if strings.HasSuffix(g, "*") && i+1 < len(tokens) && strings.HasPrefix(tokens[i+1], "*") {
				continue // the new '*' would fuse with the next token into '**' (a different construct, not a widening)
			}
			s := strings.Join(tokens[:i], "") + g + strings.Join(tokens[i+1:], "")
			out = append(out, s)
		}
	}
	return out
}

func (c *checker) checkGeneralise(ps, qs string, onlyPath string) (evals int64) {
	defer func() {
		if e := recover(); e != nil {
			c.col.add("panic", ps+"⊑"+qs, fmt.Sprintf("panic: %v", e), vCase{Kind: "generalise", Pattern: ps, Other: qs})
		}
	}()
	vp, err1 := variantOf(ps)
	vq, err2 := variantOf(qs)
	if err1 != nil || err2 != nil {
		c.col.add("valid-rejected", ps+"⊑"+qs, fmt.Sprintf("group-free patterns %q / %q refused: %v / %v", ps, qs, err1, err2), vCase{Kind: "generalise", Pattern: ps, Other: qs})
		return 0
	}
	if vp.String() == vq.String() {
		return 0
	}
	for _, path := range c.paths {
		if onlyPath != "" && path != onlyPath {
			continue
		}
		mp, _ := patterns.PathPatternMatches(vp.String(), path)
		if !mp || !regexMatches(vp, path) {
			continue
		}
		mq, _ := patterns.PathPatternMatches(vq.String(), path)
		cs := vCase{Kind: "generalise", Pattern: ps, Other: qs, Path: path}
		evals++
		if !mq {
			c.col.add("generalisation-matches-less", ps+"⊑"+qs+"@"+path, fmt.Sprintf("%q matches %q but its generalisation %q does not", vp.String(), path, vq.String()), cs)
			continue
		}
		if !regexMatches(vq, path) {
			continue // reported by the regex law
		}
		x, err := vp.Compare(vq, path)
		y, err2 := vq.Compare(vp, path)
		if err != nil || err2 != nil || x != 1 || y != -1 {
			c.col.add("generalisation-more-specific", ps+"⊑"+qs+"@"+path,
				fmt.Sprintf("on %q: Compare(%q,%q)=%d,%v and reverse %d,%v; a pattern must have precedence over the same pattern with one literal/'?' widened to '?'/'*'", path, vp.String(), vq.String(), x, err, y, err2), cs)
		}
	}
	return evals
}

// ------------------------------------------------------------------------------------------------
// variant-count boundary family

func altList(n int, prefix string) string {
	s := make([]string, n)
	for i := range s {
		s[i] = fmt.Sprintf("%s%d", prefix, i)
	}
	return "{" + strings.Join(s, ",") + "}"
}

func boundaryFamily() []pat {
	var out []pat
	add := func(s string) { out = append(out, pat{s, []string{s}}) }
	g10 := func(p string) string { return altList(10, p) }
	add("/" + g10("a") + g10("b") + g10("c"))                                         // 1000
	add("/" + g10("a") + g10("b") + altList(11, "c"))                                 // 1100
	add("/{" + g10("a") + g10("b") + g10("c") + ",x}")                                // 1001 (sum at the top)
	add("/{" + g10("a") + g10("b") + altList(9, "c") + "," + altList(100, "d") + "}") // 900+100 = 1000
	add("/{" + g10("a") + g10("b") + altList(9, "c") + "," + altList(101, "d") + "}") // 1001
	add("/" + strings.Repeat("{a,b}", 9))                                             // 512
	add("/" + strings.Repeat("{a,b}", 10))                                            // 1024
	add("/" + altList(1000, "a"))                                                     // 1000
	add("/" + altList(1001, "a"))                                                     // 1001
	add("/" + altList(999, "a") + "{,/}")                                             // 1998
	add("/" + altList(500, "a") + "{,/}")                                             // 1000
	add("/{a,{b,{c,{d,{e,{f,g}}}}}}" + "{x,{y,z}}")                                   // 7*3 nested sums
	add("/" + strings.Repeat("{a,", 30) + "a" + strings.Repeat("}", 30))              // all alternatives equal
	add("/{a,a}{b,b,b}")                                                              // duplicates: 1 distinct, 6 counting repeats
	add("/{a,b,a}")                                                                   // 2 distinct
	add("/{{a,b},{b,a}}")                                                             // nested duplicates in different order
	add("/" + strings.Repeat("{", 1000) + "a" + strings.Repeat("}", 1000))            // too deep
	add("/" + strings.Repeat("{", 999) + "a" + strings.Repeat("}", 999))
	// many groups: the product passes 2^31, 2^63, 2^64 (two-way: k = 31/32, 63/64; three-way: k = 20/21, 40/41)
	for _, k := range []int{5, 6, 7, 9, 10, 11, 20, 21, 30, 31, 32, 33, 40, 41, 62, 63, 64, 65, 70, 128} {
		add("/" + strings.Repeat("{a,b}", k))                              // 2^k
		add("/" + strings.Repeat("{a,b,c}", k))                            // 3^k
		add("/{x," + strings.Repeat("{a,b}", k) + "}")                     // 1 + 2^k: product inside an alternative
		add("/{" + strings.Repeat("{a,b,c}", k) + ",y}{c,d}")              // (3^k + 1) * 2
		add("/" + strings.Repeat("{a,{b,c}}", k))                          // nested sums, 3^k
		add("/" + strings.Repeat("{a,a}", k))                              // 2^k counting repeats, 1 distinct
		add("/" + strings.Repeat("{a,b}", k) + strings.Repeat("{c,c}", k)) // mixed
	}
	return out
}

// ------------------------------------------------------------------------------------------------

func TestC37(t *testing.T) {
	r := eng.Start("C37", "exploration", 150*time.Second, 15*time.Minute)
	r.Assume("reference scanner/brace expander (~120 lines: escapes, nesting, commas outside groups literal, brackets refused) decides well-formedness and the expected expansions; normal forms of expansions are obtained from the package itself (single-variant patterns)",
		"specificity law: widening one literal to '?'/'*' or one '?' to '*' must lower precedence (from the doc comment of componentType: literal > '?' > ... > '*')",
		"token alphabet and path segments {a,b,ab,\"\"} (+ {*,{,a*,{a} up to 2 segments) as covering abstractions; paths with empty inner segments ('//') are not included",
		"multi-byte text is represented by é (2 bytes), € (3 bytes) and, in the thorough tier, 𝄞 (4 bytes) and ⁑ (the variant parser's internal '**' marker), as literal tokens, inside group alternatives, escaped, and in path segments; patterns and paths are valid UTF-8")

	paths := allPaths(r.Thorough())
	pathIdx := map[string]int{}
	for i, p := range paths {
		pathIdx[p] = i
	}
	col := newCollector(12)
	c := &checker{r: r, col: col, paths: paths, pathIdx: pathIdx, variants: map[string]*variantInfo{}}

	if rc := r.ReplayCase(); rc != nil {
		var cs vCase
		if err := json.Unmarshal(rc, &cs); err != nil {
			eng.HarnessError("bad replay case: %v", err)
		}
		if cs.Path != "" {
			if _, ok := pathIdx[cs.Path]; !ok {
				c.paths = append(c.paths, cs.Path)
			}
		}
		stuck := watchedFor(1, func(int) {
			switch cs.Kind {
			case "pattern":
				p := pat{cs.Pattern, []string{cs.Pattern}}
				res := c.checkPattern(p)
				fmt.Printf("replay pattern %q: valid=%v variants=%q\n", cs.Pattern, res.valid, res.variants)
				if res.valid {
					for _, vi := range c.variants {
						c.checkVariantPaths(vi)
					}
					c.checkPatternPaths(p, res)
					if cs.Path != "" {
						m, err := patterns.PathPatternMatches(cs.Pattern, cs.Path)
						fmt.Printf("  PathPatternMatches(%q,%q)=%v,%v\n", cs.Pattern, cs.Path, m, err)
						for _, v := range res.variants {
							m, err := patterns.PathPatternMatches(v, cs.Path)
							fmt.Printf("  variant %q on %q: %v,%v regex=%v\n", v, cs.Path, m, err, regexMatches(c.variants[v].v, cs.Path))
						}
					}
				}
			case "variant":
				v, err := variantOf(cs.Pattern)
				if err != nil {
					eng.HarnessError("replay: %q is not a single-variant pattern: %v", cs.Pattern, err)
				}
				c.checkVariantPaths(c.variant(v, 1, cs.Pattern))
			case "precedence":
				var vs []patterns.PatternVariant
				for _, s := range cs.Variants {
					v, err := variantOf(s)
					if err != nil {
						eng.HarnessError("replay: %q is not a single-variant pattern: %v", s, err)
					}
					vs = append(vs, v)
				}
				c.checkPrecedence(cs.Path, vs, 64)
			case "generalise":
				c.checkGeneralise(cs.Pattern, cs.Other, cs.Path)
			default:
				eng.HarnessError("unknown case kind %q", cs.Kind)
			}
		})
		if len(stuck) > 0 {
			msg := fmt.Sprintf("replay of %s %q did not return within %v: the enumeration of its variants does not end", cs.Kind, cs.Pattern, renderTimeout)
			fmt.Println("  render-never-ends: " + msg)
			r.Violation("render-never-ends:"+strings.ReplaceAll(cs.Pattern, " ", "␣"), msg, cs)
			r.Finish("replay")
		}
		// in a replay only violations that concern the stored input are of interest
		for _, v := range col.byKey {
			if cs.Path == "" || v.cs.Path == "" || v.cs.Path == cs.Path {
				fmt.Printf("  %s: %s\n", v.law, v.msg)
				r.Violation(v.key, v.msg, v.cs)
			}
		}
		r.Finish("replay")
	}

	maxTokens := r.Pick(4, 5)
	poolTokens := r.Pick(3, 4)
	tripleMax := r.Pick(40, 64)
	toks := append(append([]string{}, restTokens...), uniTokens...)
	var pats []pat
	if r.Quick() {
		pats = allPatterns(maxTokens, toks)
	} else {
		// thorough: every pattern of ≤ 5 tokens over the 27-token alphabet (ASCII tokens, all escapes, é, €, {é,€b})
		// and every pattern of ≤ 4 tokens over the full 31-token alphabet (+ \é, {é{a,b},€}, 𝄞, ⁑)
		long := append(append(append([]string{}, restTokens...), moreEscapes...), uniTokensLong...)
		toks = append(append(toks, moreEscapes...), uniTokensThorough...)
		pats = allPatterns(maxTokens, long)
		seen := make(map[string]bool, len(pats))
		for _, p := range pats {
			seen[p.s] = true
		}
		for _, p := range allPatterns(maxTokens-1, toks) {
			if !seen[p.s] {
				pats = append(pats, p)
			}
		}
		r.Info("thorough_alphabets", map[string]int{"rest_tokens_up_to_5": len(long), "rest_tokens_up_to_4": len(toks)})
	}
	pats = append(pats, boundaryFamily()...)

	// ---- pass A: validity, counts, expansions
	results := make([]patResult, len(pats))
	var nValid, nMulti, nMultiGroups int64
	multiByte := func(s string) bool { return len(s) != len([]rune(s)) }
	var capped int32
	stuck := watchedFor(len(pats), func(i int) {
		if r.TimeUp() {
			atomic.StoreInt32(&capped, 1)
			return
		}
		results[i] = c.checkPattern(pats[i])
		if results[i].valid {
			atomic.AddInt64(&nValid, 1)
			if multiByte(pats[i].s) {
				atomic.AddInt64(&nMulti, 1)
				if len(results[i].variants) > 1 {
					atomic.AddInt64(&nMultiGroups, 1)
				}
			}
		}
	})
	r.Add("patterns", int64(len(pats)))
	r.Add("patterns_valid", nValid)
	r.Add("patterns_valid_with_multibyte_text", nMulti)
	r.Add("patterns_valid_with_multibyte_text_and_2plus_variants", nMultiGroups)
	abortOnStuck := func(stuck []int, describe func(i int) (string, vCase)) {
		if len(stuck) == 0 {
			return
		}
		// every further item could cost another renderTimeout: report and stop
		for _, i := range stuck {
			id, cs := describe(i)
			col.add("render-never-ends", id, fmt.Sprintf("work on %s did not return within %v: the enumeration of its variants (RenderAllVariants on the pattern or on one of its expansions) does not end", id, renderTimeout), cs)
		}
		r.Cap("aborted", "an enumeration of variants did not end (reported as render-never-ends); the remaining inputs and all later passes were skipped")
		col.flush(r)
		r.Add("evaluations", int64(len(pats)))
		r.Add("distinct_nontrivial", atomic.LoadInt64(&nValid))
		r.Sample(vCase{Kind: "pattern", Pattern: "/a{,/}/**", Path: "/a/b"})
		r.Finish("aborted after an endless variant enumeration; see the violations")
	}
	abortOnStuck(stuck, func(i int) (string, vCase) { return pats[i].s, vCase{Kind: "pattern", Pattern: pats[i].s} })
	r.Add("patterns_rejected", int64(len(pats))-nValid)

	// ---- pass B: every distinct variant on every path, both matchers
	var vlist []*variantInfo
	for _, vi := range c.variants {
		vlist = append(vlist, vi)
	}
	sort.Slice(vlist, func(i, j int) bool { return vlist[i].v.String() < vlist[j].v.String() })
	var vEvals int64
	eng.ParallelFor(len(vlist), func(i int) {
		if r.TimeUp() {
			atomic.StoreInt32(&capped, 1)
			return
		}
		atomic.AddInt64(&vEvals, c.checkVariantPaths(vlist[i]))
	})
	r.Add("distinct_variants", int64(len(vlist)))
	r.Add("same_string_variants_with_different_components_compared", c.sameStringCompared)
	if len(vlist) > 0 && fingerprint(vlist[0].v) == "" {
		r.Info("warning", "component fingerprint unavailable: the same-string law was not exercised")
	}
	r.Add("variant_path_evaluations", vEvals)

	// ---- pass C: pattern matches ⇔ some variant matches
	var pEvals, pMatched, multi, mbMatched int64
	eng.ParallelFor(len(pats), func(i int) {
		if !results[i].valid || len(results[i].variants) > 64 {
			return // the boundary family (hundreds of variants) is only counted, not matched
		}
		if r.TimeUp() {
			atomic.StoreInt32(&capped, 1)
			return
		}
		e, m := c.checkPatternPaths(pats[i], results[i])
		atomic.AddInt64(&pEvals, e)
		atomic.AddInt64(&pMatched, m)
		if len(results[i].variants) > 1 {
			atomic.AddInt64(&multi, m)
		}
		if multiByte(pats[i].s) {
			atomic.AddInt64(&mbMatched, m)
		}
	})
	r.Add("pattern_path_evaluations", pEvals)
	r.Add("pattern_path_matches", pMatched)
	r.Add("pattern_path_matches_multi_variant", multi)
	r.Add("pattern_path_matches_multibyte_pattern", mbMatched)

	// ---- pass D: precedence on V(path) for the pool (variants of patterns with ≤ poolTokens tokens)
	var pool []*variantInfo
	for _, vi := range vlist {
		if vi.minToks <= poolTokens && vi.dm != nil {
			pool = append(pool, vi)
		}
	}
	var prPairs, prTriples, prSets, maxSet int64
	eng.ParallelFor(len(paths), func(i int) {
		if r.TimeUp() {
			atomic.StoreInt32(&capped, 1)
			return
		}
		var vs []patterns.PatternVariant
		for _, vi := range pool {
			if vi.dm.get(i) && vi.rm.get(i) {
				vs = append(vs, vi.v)
			}
		}
		if len(vs) == 0 {
			return
		}
		p, t := c.checkPrecedence(paths[i], vs, tripleMax)
		atomic.AddInt64(&prPairs, p)
		atomic.AddInt64(&prTriples, t)
		if len(vs) > 1 {
			atomic.AddInt64(&prSets, 1)
		}
		for {
			old := atomic.LoadInt64(&maxSet)
			if int64(len(vs)) <= old || atomic.CompareAndSwapInt64(&maxSet, old, int64(len(vs))) {
				break
			}
		}
	})
	r.Add("precedence_pool_variants", int64(len(pool)))
	r.Add("precedence_paths_with_2plus_variants", prSets)
	r.Add("precedence_compare_pairs", prPairs)
	r.Add("precedence_triples_all_orders", prTriples)
	r.Max("max_matching_set", maxSet)

	// ---- pass E: specificity of one-step generalisations
	var gEvals, gPairs int64
	stuck = watchedFor(len(pats), func(i int) {
		p := pats[i]
		if !results[i].valid || len(p.tokens) > poolTokens {
			return
		}
		for _, t := range p.tokens {
			if !groupFree[t] {
				return
			}
		}
		if r.TimeUp() {
			atomic.StoreInt32(&capped, 1)
			return
		}
		for _, q := range generalisations(p.tokens) {
			atomic.AddInt64(&gPairs, 1)
			atomic.AddInt64(&gEvals, c.checkGeneralise(p.s, q, ""))
		}
	})
	abortOnStuck(stuck, func(i int) (string, vCase) {
		return "generalisations-of:" + pats[i].s, vCase{Kind: "pattern", Pattern: pats[i].s}
	})
	r.Add("generalisation_pairs", gPairs)
	r.Add("generalisation_compares", gEvals)

	if capped != 0 {
		r.Cap("time", "some variants/patterns/paths were skipped after the soft budget; counters say how many were evaluated")
	}
	col.flush(r)
	r.Add("evaluations", int64(len(pats))+vEvals+pEvals+prPairs+prTriples+gEvals)
	r.Add("distinct_nontrivial", pMatched+prSets+gEvals)
	r.Info("bounds", map[string]int{"max_tokens": maxTokens, "first_tokens": len(firstTokens), "rest_tokens": len(toks), "paths": len(paths),
		"precedence_pool_max_tokens": poolTokens, "triple_max_set": tripleMax, "boundary_family": len(boundaryFamily())})
	r.Sample(vCase{Kind: "pattern", Pattern: "/a{,/}/**", Path: "/a/b"})
	r.Sample(vCase{Kind: "pattern", Pattern: "/é{a,b}{a,b}", Path: "/éba"})
	r.Sample(vCase{Kind: "pattern", Pattern: pats[len(pats)/2].s, Path: paths[len(paths)/2]})
	r.Sample(vCase{Kind: "precedence", Path: "/a/b", Variants: []string{"/a/b", "/a/?", "/a/*", "/**/b", "/**"}})
	r.Sample(vCase{Kind: "generalise", Pattern: "/a/b", Other: "/a/*", Path: "/a/b"})
	r.Finish("every pattern of ≤ max_tokens tokens (first token from 4, the others from 26 in the quick tier; thorough: ≤ 5 tokens over 27 and ≤ 4 tokens over 31; incl. an escaped form of every metacharacter and multi-byte literals é € (𝄞 ⁑) bare, escaped and inside group alternatives; paths include segments with those characters) plus a variant-count boundary family: validity, counts and expansion laws; every distinct rendered variant × every path: doublestar verdict vs the variant's regex; every valid pattern × every path: pattern matches ⇔ some variant matches; for every path the set of all pooled variants (patterns of ≤ precedence_pool_max_tokens tokens) matching it: all ordered pairs through Compare, list/reverse/rotations/pairs/triples through HighestPrecedencePattern; every one-step generalisation of every pooled group-free pattern on every path it matches. distinct_nontrivial = (pattern,path) pairs that match (the equivalence is checked on all pairs; matching ones are those where a variant had to be found) + paths with ≥ 2 competing variants + generalisation comparisons actually made")
}
