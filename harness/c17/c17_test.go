// C17 — kernel and base updates can always fall back to the last known-good revision.
//
// Explicit-state breadth-first exploration of a simulated device whose transition relation is the
// REAL snapd boot code: boot.Participant(..).SetNextBoot, boot.MarkBootSuccessful,
// boot.InitramfsRunModeUpdateBootloaderVars and boot.InitramfsRunModeSelectSnapsToMount, running
// against bootloadertest mocks that are wrapped so that the complete persistent boot data is
// snapshotted after every individual bootloader write, and after every modeenv write (hook H1,
// boot.VerifPoint). A "power loss after write k" successor is exactly snapshot k.
// The firmware step is the repository's own UC20 boot script (bootloader/assets/data/grub.cfg, run by
// the evaluator in grub_test.go) for the grub variant, and small hand-written protocol models for
// UC16 gadget scripts and piboot-style tryboot (trusted base, see fwUC16/fwPiboot).
//
// The persistent state is pure data (bootloader env, kernel/try-kernel refs, modeenv text), so a
// successor is computed by re-materialising the data into the mocks and calling the real function.
package c17_test

import (
	"encoding/json"
	"errors"
	"fmt"
	"os"
	"path/filepath"
	"regexp"
	"runtime/pprof"
	"sort"
	"strconv"
	"strings"
	"syscall"
	"testing"
	"time"

	"github.com/snapcore/snapd/asserts"
	"github.com/snapcore/snapd/boot"
	"github.com/snapcore/snapd/boot/boottest"
	"github.com/snapcore/snapd/bootloader"
	"github.com/snapcore/snapd/bootloader/assets"
	"github.com/snapcore/snapd/bootloader/bootloadertest"
	"github.com/snapcore/snapd/dirs"
	"github.com/snapcore/snapd/osutil"
	"github.com/snapcore/snapd/osutil/kcmdline"
	"github.com/snapcore/snapd/snap"
	eng "github.com/snapcore/snapd/verifengine"
)

const (
	kindGrub20   = "uc20-grub"
	kindPiboot20 = "uc20-notscriptable"
	kindUC16     = "uc16"

	kernelName = "pc-kernel"
)

type variantT struct {
	Name  string   `json:"name"`
	Kind  string   `json:"kind"`
	Types []string `json:"types"` // snap types that receive updates: kernel, base
	Revs  int      `json:"revs"`  // revisions r1..rN exist as blobs; r1 is the initial known-good one
	Depth int      `json:"depth"` // BFS depth bound (events)
}

func (v variantT) baseName() string {
	if v.Kind == kindUC16 {
		return "core"
	}
	return "core20"
}

func (v variantT) fn(typ string, rev int) string {
	if typ == "kernel" {
		return fmt.Sprintf("%s_%d.snap", kernelName, rev)
	}
	return fmt.Sprintf("%s_%d.snap", v.baseName(), rev)
}

// ---------------------------------------------------------------------------------------------
// state

// pstate: everything a power loss preserves.
type pstate struct {
	Env       map[string]string `json:"env,omitempty"`        // bootloader variables (non-empty ones)
	Kernel    string            `json:"kernel_ref,omitempty"` // uc20-grub: what kernel.efi points to
	TryKernel string            `json:"try_kernel_ref,omitempty"`
	Modeenv   string            `json:"modeenv,omitempty"` // UC20: text of /var/lib/snapd/modeenv
}

func (p pstate) key() string { return eng.JSON(p) }

// vstate: volatile.
type vstate struct {
	Phase  string `json:"phase"` // off | fw (kernel started, initramfs not yet run) | run (snapd usable)
	RunK   string `json:"run_kernel,omitempty"`
	RunB   string `json:"run_base,omitempty"`
	Armed  bool   `json:"tryboot_armed,omitempty"`  // piboot: the coming firmware step is a one-shot tryboot
	Trying bool   `json:"cmdline_trying,omitempty"` // piboot: kernel command line carries kernel_status=trying
}

// hstate: history variables of the oracle (not visible to the implementation).
type hstate struct {
	TrialK []string `json:"trial_kernel,omitempty"` // revisions snapd asked to try and that were not yet booted
	TrialB []string `json:"trial_base,omitempty"`
	EverK  []string `json:"ever_good_kernel,omitempty"` // revisions that have been known-good (undo targets)
	EverB  []string `json:"ever_good_base,omitempty"`
	// the revision selected by the most recent trial boot of the type, until it becomes known-good or is
	// requested again: booting it once more means a used-up (failed or interrupted) trial is repeated
	TriedK string `json:"tried_kernel,omitempty"`
	TriedB string `json:"tried_base,omitempty"`
}

type state struct {
	P pstate `json:"persistent"`
	V vstate `json:"volatile"`
	H hstate `json:"history"`
}

// key is the dedup key. The modeenv's current_kernels list is compared as a set: SetNextBoot appends to
// it without looking (re-trying r2 gives r1,r2,r2), every reader in the explored code only asks for
// membership (strutil.ListContains), and the writers either append a kernel different from the current
// one or replace the whole list, so states that differ only in order/duplicates of that list have the
// same successors up to the same difference. The stored state keeps the real text.
func (s state) key() string {
	c := s
	c.P.Modeenv = canonModeenv(s.P.Modeenv)
	return eng.JSON(c)
}

func canonModeenv(text string) string {
	const k = "current_kernels="
	i := strings.Index(text, "\n"+k)
	if i < 0 {
		return text
	}
	i += 1 + len(k)
	j := strings.IndexByte(text[i:], '\n')
	if j < 0 {
		j = len(text) - i
	}
	var set []string
	for _, x := range strings.Split(text[i:i+j], ",") {
		set = setAdd(set, x)
	}
	return text[:i] + strings.Join(set, ",") + text[i+j:]
}

func setHas(s []string, x string) bool {
	for _, y := range s {
		if y == x {
			return true
		}
	}
	return false
}

func setAdd(s []string, x string) []string {
	if x == "" || setHas(s, x) {
		return s
	}
	n := append(append([]string(nil), s...), x)
	sort.Strings(n)
	return n
}

func (h hstate) trial(typ string) []string {
	if typ == "kernel" {
		return h.TrialK
	}
	return h.TrialB
}

func (h *hstate) setTrial(typ string, v []string) {
	if typ == "kernel" {
		h.TrialK = v
	} else {
		h.TrialB = v
	}
}

func (h hstate) tried(typ string) string {
	if typ == "kernel" {
		return h.TriedK
	}
	return h.TriedB
}

func (h *hstate) setTried(typ, v string) {
	if typ == "kernel" {
		h.TriedK = v
	} else {
		h.TriedB = v
	}
}

func (h hstate) ever(typ string) []string {
	if typ == "kernel" {
		return h.EverK
	}
	return h.EverB
}

type event struct {
	Op    string `json:"op"` // boot | initramfs | fail | reboot | setnext | mark
	Type  string `json:"type,omitempty"`
	Rev   int    `json:"rev,omitempty"`
	NoTry bool   `json:"no_try,omitempty"`
	Crash int    `json:"power_loss_after_write,omitempty"` // k>0: the operation is cut after its k-th persistent write
}

func (e event) String() string {
	s := e.Op
	if e.Op == "setnext" {
		s += fmt.Sprintf("(%s,r%d", e.Type, e.Rev)
		if e.NoTry {
			s += ",no-try"
		}
		s += ")"
	}
	if e.Crash > 0 {
		s += fmt.Sprintf("+power-loss-after-write-%d", e.Crash)
	}
	return s
}

type problem struct {
	Oracle string `json:"oracle"`
	Msg    string `json:"msg"`
	Cause  string `json:"cause,omitempty"` // short canonical cause, part of the violation key
}

type succ struct {
	Ev         event
	S          state
	Problems   []problem
	Class      string // outcome class (vacuity guard)
	Nontrivial bool
	Note       string
}

// ---------------------------------------------------------------------------------------------
// modeenv text -> fields the oracle needs (independent of boot.ReadModeenv)

func modeenvFields(text string) map[string]string {
	m := map[string]string{}
	for _, l := range strings.Split(text, "\n") {
		if i := strings.IndexByte(l, '='); i > 0 {
			m[l[:i]] = l[i+1:]
		}
	}
	return m
}

func currentKernels(p pstate) []string {
	v := modeenvFields(p.Modeenv)["current_kernels"]
	if v == "" {
		return nil
	}
	return strings.Split(v, ",")
}

// ---------------------------------------------------------------------------------------------
// device: the mocks + real code

type dev16 struct{}

func (dev16) RunMode() bool         { return true }
func (dev16) Classic() bool         { return false }
func (dev16) Kernel() string        { return kernelName }
func (dev16) Base() string          { return "" } // UC16: the boot base is "core"
func (dev16) Gadget() string        { return "pc" }
func (dev16) HasModeenv() bool      { return false }
func (dev16) IsCoreBoot() bool      { return true }
func (dev16) IsClassicBoot() bool   { return false }
func (dev16) Model() *asserts.Model { panic("Model() is not used for UC16 boot state") }

type device struct {
	v          variantT
	root       string
	dev        snap.Device
	mb         *bootloadertest.MockBootloader
	ebl        *bootloadertest.MockExtractedRunKernelImageBootloader
	grub       []gnode
	places     map[string]snap.PlaceInfo
	curMenv    string
	curCmdline string

	recording  bool
	writes     []pstate
	writeNames []string

	rebootRequested bool
	cmdlineFile     string
	menvPath        string
	restore         []func()

	implCalls int64
}

var errRebootRequested = errors.New("harness: initramfs requested a reboot")

// wrappers: every persistent bootloader write is followed by a snapshot
type wrapEbl struct {
	*bootloadertest.MockExtractedRunKernelImageBootloader
	d *device
}

func (w *wrapEbl) SetBootVars(m map[string]string) error {
	err := w.MockExtractedRunKernelImageBootloader.SetBootVars(m)
	w.d.wrote("SetBootVars")
	return err
}
func (w *wrapEbl) EnableKernel(s snap.PlaceInfo) error {
	err := w.MockExtractedRunKernelImageBootloader.EnableKernel(s)
	w.d.wrote("EnableKernel")
	return err
}
func (w *wrapEbl) EnableTryKernel(s snap.PlaceInfo) error {
	err := w.MockExtractedRunKernelImageBootloader.EnableTryKernel(s)
	w.d.wrote("EnableTryKernel")
	return err
}
func (w *wrapEbl) DisableTryKernel() error {
	err := w.MockExtractedRunKernelImageBootloader.DisableTryKernel()
	w.d.wrote("DisableTryKernel")
	return err
}

type wrapNsb struct {
	*bootloadertest.MockNotScriptableBootloader
	d *device
}

func (w *wrapNsb) SetBootVars(m map[string]string) error {
	err := w.MockNotScriptableBootloader.SetBootVars(m)
	w.d.wrote("SetBootVars")
	return err
}
func (w *wrapNsb) SetBootVarsFromInitramfs(m map[string]string) error {
	err := w.MockNotScriptableBootloader.SetBootVarsFromInitramfs(m)
	w.d.wrote("SetBootVarsFromInitramfs")
	return err
}

type wrap16 struct {
	*bootloadertest.MockBootloader
	d *device
}

func (w *wrap16) SetBootVars(m map[string]string) error {
	err := w.MockBootloader.SetBootVars(m)
	w.d.wrote("SetBootVars")
	return err
}

func (d *device) wrote(name string) {
	if d.recording {
		d.writes = append(d.writes, d.snapshot())
		d.writeNames = append(d.writeNames, name)
	}
}

func (d *device) place(fn string) snap.PlaceInfo {
	if p, ok := d.places[fn]; ok {
		return p
	}
	p, err := snap.ParsePlaceInfoFromSnapFileName(fn)
	if err != nil {
		eng.HarnessError("bad snap file name %q: %v", fn, err)
	}
	d.places[fn] = p
	return p
}

func (d *device) snapshot() pstate {
	p := pstate{}
	for k, v := range d.mb.BootVars {
		if v != "" {
			if p.Env == nil {
				p.Env = map[string]string{}
			}
			p.Env[k] = v
		}
	}
	if d.ebl != nil {
		k, err := d.ebl.Kernel()
		if err != nil || k == nil {
			eng.HarnessError("mock has no kernel ref: %v", err)
		}
		p.Kernel = k.Filename()
		if t, err := d.ebl.TryKernel(); err == nil && t != nil {
			p.TryKernel = t.Filename()
		}
	}
	p.Modeenv = d.curMenv
	return p
}

func (d *device) materialize(p pstate) {
	env := make(map[string]string, len(p.Env))
	for k, v := range p.Env {
		env[k] = v
	}
	d.mb.BootVars = env
	if d.ebl != nil {
		d.ebl.SetEnabledKernel(d.place(p.Kernel))
		if p.TryKernel == "" {
			d.ebl.SetEnabledTryKernel(nil)
		} else {
			d.ebl.SetEnabledTryKernel(d.place(p.TryKernel))
		}
	}
	if d.v.Kind != kindUC16 && p.Modeenv != d.curMenv {
		if err := os.WriteFile(d.menvPath, []byte(p.Modeenv), 0644); err != nil {
			eng.HarnessError("cannot write modeenv: %v", err)
		}
		d.curMenv = p.Modeenv
	}
}

func grubCfgSource() (text string, from string) {
	repo := os.Getenv("VERIF_REPO")
	if repo == "" {
		repo = "/repo"
	}
	p := filepath.Join(repo, "bootloader/assets/data/grub.cfg")
	from = p
	// mutants of non-Go files are only visible through the build overlay the driver generated
	if ov := os.Getenv("VERIF_OVERLAY"); ov != "" {
		if b, err := os.ReadFile(ov); err == nil {
			var o struct{ Replace map[string]string }
			if json.Unmarshal(b, &o) == nil {
				if q, ok := o.Replace[p]; ok {
					from = q
				}
			}
		}
	}
	b, err := os.ReadFile(from)
	if err != nil {
		eng.HarnessError("cannot read the shipped grub.cfg: %v", err)
	}
	return string(b), from
}

func newDevice(v variantT, root string) (*device, pstate) {
	d := &device{v: v, root: root, places: map[string]snap.PlaceInfo{}}
	dirs.SetRootDir(root)
	d.restore = append(d.restore, func() { dirs.SetRootDir("/") })
	blobs := dirs.SnapBlobDirUnder(root)
	if err := os.MkdirAll(blobs, 0755); err != nil {
		eng.HarnessError("%v", err)
	}
	for r := 1; r <= v.Revs; r++ {
		for _, t := range []string{"kernel", "base"} {
			if err := os.WriteFile(filepath.Join(blobs, v.fn(t, r)), nil, 0644); err != nil {
				eng.HarnessError("%v", err)
			}
		}
	}
	os.WriteFile(filepath.Join(blobs, "pc_1.snap"), nil, 0644)
	d.menvPath = filepath.Join(root, "var/lib/snapd/modeenv")
	d.cmdlineFile = filepath.Join(root, "proc-cmdline")
	d.mb = bootloadertest.Mock("mock", root)
	init := pstate{}
	switch v.Kind {
	case kindGrub20:
		d.ebl = d.mb.WithExtractedRunKernelImage()
		bootloader.Force(&wrapEbl{d.ebl, d})
		src, _ := grubCfgSource()
		g, err := grubParse(src)
		if err != nil {
			eng.HarnessError("grub.cfg is outside the subset the evaluator supports: %v", err)
		}
		d.grub = g
		init.Kernel = v.fn("kernel", 1)
	case kindPiboot20:
		bootloader.Force(&wrapNsb{d.mb.WithNotScriptable(), d})
		init.Env = map[string]string{"snap_kernel": v.fn("kernel", 1)}
	case kindUC16:
		bootloader.Force(&wrap16{d.mb, d})
		init.Env = map[string]string{"snap_kernel": v.fn("kernel", 1), "snap_core": v.fn("base", 1)}
	}
	d.restore = append(d.restore, func() { bootloader.Force(nil) })
	if v.Kind == kindUC16 {
		d.dev = dev16{}
	} else {
		d.dev = boottest.MockUC20Device("run", nil)
		model := d.dev.Model()
		m := &boot.Modeenv{
			Mode:           "run",
			Base:           v.fn("base", 1),
			Gadget:         "pc_1.snap",
			CurrentKernels: []string{v.fn("kernel", 1)},
			Model:          model.Model(),
			BrandID:        model.BrandID(),
			Grade:          string(model.Grade()),
			ModelSignKeyID: model.SignKeyID(),
		}
		if err := m.WriteTo(root); err != nil {
			eng.HarnessError("cannot write the initial modeenv: %v", err)
		}
		b, err := os.ReadFile(d.menvPath)
		if err != nil {
			eng.HarnessError("%v", err)
		}
		d.curMenv = string(b)
		init.Modeenv = d.curMenv
		d.restore = append(d.restore, boot.MockInitramfsReboot(func() error {
			d.rebootRequested = true
			return errRebootRequested
		}))
		d.restore = append(d.restore, kcmdline.MockProcCmdline(d.cmdlineFile))
	}
	boot.VerifPoint = func(name, path string) {
		if name != "modeenv-write" {
			return
		}
		if path != d.menvPath {
			eng.HarnessError("modeenv written to unexpected path %s", path)
		}
		b, err := os.ReadFile(path)
		if err != nil {
			eng.HarnessError("%v", err)
		}
		d.curMenv = string(b)
		d.wrote("modeenv")
	}
	d.restore = append(d.restore, func() { boot.VerifPoint = nil })
	return d, init
}

func (d *device) close() {
	for i := len(d.restore) - 1; i >= 0; i-- {
		d.restore[i]()
	}
}

type opResult struct {
	writes []pstate
	names  []string
	err    error
}

// do materialises p, runs f (real snapd code) and returns the persistent data after each write.
func (d *device) do(p pstate, f func() error) opResult {
	d.materialize(p)
	d.writes, d.writeNames = nil, nil
	d.recording = true
	err := f()
	d.recording = false
	d.implCalls++
	return opResult{d.writes, d.writeNames, err}
}

func (r opResult) final(p pstate) pstate {
	if len(r.writes) == 0 {
		return p
	}
	return r.writes[len(r.writes)-1]
}

func (d *device) snapType(typ string) snap.Type {
	if typ == "kernel" {
		return snap.TypeKernel
	}
	if d.v.Kind == kindUC16 {
		return snap.TypeOS
	}
	return snap.TypeBase
}

func (d *device) setNext(p pstate, typ string, rev int, noTry bool) opResult {
	sn := d.place(d.v.fn(typ, rev))
	return d.do(p, func() error {
		bp := boot.Participant(sn, d.snapType(typ), d.dev)
		if bp.IsTrivial() {
			eng.HarnessError("boot participant for %s is trivial (device mock wrong)", sn.Filename())
		}
		_, err := bp.SetNextBoot(boot.NextBootContext{BootWithoutTry: noTry})
		return err
	})
}

func (d *device) mark(p pstate) opResult {
	return d.do(p, func() error { return boot.MarkBootSuccessful(d.dev) })
}

type initramfsResult struct {
	opResult
	outcome string // ok | reboot | error
	kernel  string
	base    string
}

// initramfs: what snap-bootstrap's run-mode path does with the boot package (cmd_initramfs_mounts.go:
// InitramfsRunModeUpdateBootloaderVars, ReadModeenv, InitramfsRunModeSelectSnapsToMount(base, gadget, kernel)).
func (d *device) initramfs(p pstate, cmdlineTrying bool) initramfsResult {
	cl := "snapd_recovery_mode=run console=ttyS0"
	if cmdlineTrying {
		cl += " kernel_status=trying"
	}
	if cl != d.curCmdline {
		if err := os.WriteFile(d.cmdlineFile, []byte(cl+"\n"), 0644); err != nil {
			eng.HarnessError("%v", err)
		}
		d.curCmdline = cl
	}
	var res initramfsResult
	d.rebootRequested = false
	res.opResult = d.do(p, func() error {
		if err := boot.InitramfsRunModeUpdateBootloaderVars(); err != nil {
			return err
		}
		m, err := boot.ReadModeenv(d.root)
		if err != nil {
			return err
		}
		typs := []snap.Type{snap.TypeBase, snap.TypeGadget, snap.TypeKernel}
		mounts, err := boot.InitramfsRunModeSelectSnapsToMount(typs, m, d.root)
		if err != nil {
			return err
		}
		if mounts[snap.TypeKernel] == nil || mounts[snap.TypeBase] == nil {
			return fmt.Errorf("harness: no kernel or base selected: %v", mounts)
		}
		res.kernel = mounts[snap.TypeKernel].Filename()
		res.base = mounts[snap.TypeBase].Filename()
		return nil
	})
	switch {
	case d.rebootRequested:
		res.outcome = "reboot"
	case res.err != nil:
		res.outcome = "error"
	default:
		res.outcome = "ok"
	}
	return res
}

// ---------------------------------------------------------------------------------------------
// firmware

type fwResult struct {
	P       pstate
	Outcome string // boot | reboot | stuck
	Kernel  string
	Base    string // uc16 only
	Trying  bool   // piboot: kernel_status=trying on the command line
	Class   string
}

func copyEnv(e map[string]string) map[string]string {
	n := make(map[string]string, len(e))
	for k, v := range e {
		if v != "" {
			n[k] = v
		}
	}
	if len(n) == 0 {
		return nil
	}
	return n
}

// fwUC16 — TRUSTED MODEL of the UC16/18 gadget boot scripts (they live in gadget snaps, not in this
// repository); it is the protocol documented above boot.MarkBootSuccessful:
//
//	snap_mode=try    -> snap_mode=trying (saved); boot snap_try_{kernel,core} where set, else snap_{kernel,core}
//	snap_mode=trying -> snap_mode=""     (saved); boot snap_{kernel,core}
//	otherwise           boot snap_{kernel,core}
func fwUC16(p pstate) fwResult {
	env := copyEnv(p.Env)
	if env == nil {
		env = map[string]string{}
	}
	k, b := env["snap_kernel"], env["snap_core"]
	class := "normal"
	switch env["snap_mode"] {
	case "try":
		env["snap_mode"] = "trying"
		if env["snap_try_kernel"] != "" {
			k = env["snap_try_kernel"]
		}
		if env["snap_try_core"] != "" {
			b = env["snap_try_core"]
		}
		class = "try->trying"
	case "trying":
		delete(env, "snap_mode")
		class = "trying->cleared"
	}
	np := p
	np.Env = copyEnv(env)
	if k == "" || b == "" {
		return fwResult{P: np, Outcome: "stuck", Class: "stuck"}
	}
	return fwResult{P: np, Outcome: "boot", Kernel: k, Base: b, Class: class}
}

// fwPiboot — TRUSTED MODEL of a bootloader that cannot script (piboot/RPi tryboot): the try kernel is
// booted only by a one-shot "tryboot" reboot requested by snapd while kernel_status=try, and then
// with kernel_status=trying on the kernel command line; every other boot uses snap_kernel. The
// firmware never writes the environment (boot/initramfs.go:updateNotScriptableBootloaderStatus does).
func fwPiboot(p pstate, armed bool) fwResult {
	env := p.Env
	if armed && env["kernel_status"] == "try" && env["snap_try_kernel"] != "" {
		return fwResult{P: p, Outcome: "boot", Kernel: env["snap_try_kernel"], Trying: true, Class: "tryboot"}
	}
	if env["snap_kernel"] == "" {
		return fwResult{P: p, Outcome: "stuck", Class: "stuck"}
	}
	return fwResult{P: p, Outcome: "boot", Kernel: env["snap_kernel"], Class: "normal"}
}

func (d *device) firmware(p pstate, armed bool) fwResult {
	switch d.v.Kind {
	case kindUC16:
		return fwUC16(p)
	case kindPiboot20:
		return fwPiboot(p, armed)
	}
	res, err := grubRun(d.grub, p.Env, func(f string) bool {
		switch f {
		case "kernel.efi":
			return p.Kernel != ""
		case "try-kernel.efi":
			return p.TryKernel != ""
		}
		return false
	})
	if err != nil {
		eng.HarnessError("grub.cfg evaluation: %v", err)
	}
	np := p
	np.Env = copyEnv(res.Saved)
	out := fwResult{P: np, Outcome: res.Outcome}
	switch res.Outcome {
	case "boot":
		switch res.File {
		case "kernel.efi":
			out.Kernel = p.Kernel
		case "try-kernel.efi":
			out.Kernel = p.TryKernel
		default:
			eng.HarnessError("grub.cfg chainloads unknown file %q", res.File)
		}
		if !strings.Contains(res.Cmdline, "snapd_recovery_mode=run") {
			eng.HarnessError("grub.cfg run entry does not boot run mode: %q", res.Cmdline)
		}
		out.Class = fmt.Sprintf("%s status %q->%q", res.File, p.Env["kernel_status"], np.Env["kernel_status"])
	case "reboot":
		out.Class = fmt.Sprintf("fallback-entry-reboot status %q->%q", p.Env["kernel_status"], np.Env["kernel_status"])
	default:
		out.Class = "stuck"
	}
	return out
}

// ---------------------------------------------------------------------------------------------
// oracle + transition relation

type explorer struct {
	v variantT
	d *device

	closureMemo map[string][]problem
	closureRuns int64
}

// goods: the known-good revision of each type is what the fallback path boots.
func (x *explorer) goods(p pstate) (k, b string) {
	switch x.v.Kind {
	case kindGrub20:
		return p.Kernel, modeenvFields(p.Modeenv)["base"]
	case kindPiboot20:
		return p.Env["snap_kernel"], modeenvFields(p.Modeenv)["base"]
	}
	return p.Env["snap_kernel"], p.Env["snap_core"]
}

// O5: the known-good revisions change only where allowed (allowK/allowB: permitted new values)
func (x *explorer) checkGoodUnchanged(before, after pstate, allowK, allowB string, what string) []problem {
	var ps []problem
	k0, b0 := x.goods(before)
	k1, b1 := x.goods(after)
	if k1 != k0 && (allowK == "" || k1 != allowK) {
		ps = append(ps, problem{Oracle: "O5-known-good-changed", Cause: "kernel", Msg: fmt.Sprintf("known-good kernel changed %s -> %s during %s (only a successful-boot mark of the running revision %q, or an undo to that revision, may do that)", k0, k1, what, allowK)})
	}
	if b1 != b0 && (allowB == "" || b1 != allowB) {
		ps = append(ps, problem{Oracle: "O5-known-good-changed", Cause: "base", Msg: fmt.Sprintf("known-good base changed %s -> %s during %s (only a successful-boot mark of the running revision %q, or an undo to that revision, may do that)", b0, b1, what, allowB)})
	}
	return ps
}

// O2/O4: what a boot selects is the known-good revision or a revision under trial; selecting a trial
// revision uses the trial up (a trial that ended without becoming known-good must not be booted again).
func selectCheck(typ, selected, good string, h hstate) (ps []problem, nh hstate, isTrial bool) {
	if selected == good {
		return nil, h, false
	}
	trial := h.trial(typ)
	if !setHas(trial, selected) {
		cause, why := typ+"-withdrawn-or-never-requested", "a withdrawn or never requested trial is booted"
		if h.tried(typ) == selected {
			cause, why = typ+"-used-up-trial", "a trial that already had its boot and did not become known-good (failed or interrupted) is booted again"
		}
		ps = append(ps, problem{Oracle: "O2-boots-untrusted-revision", Cause: cause, Msg: fmt.Sprintf("boot selects %s %s which is neither the known-good %s nor a revision under trial %v: %s", typ, selected, good, trial, why)})
	}
	nh = h
	nh.setTrial(typ, nil)
	nh.setTried(typ, selected)
	return ps, nh, true
}

func (x *explorer) stepBoot(s state) succ {
	fw := x.d.firmware(s.P, s.V.Armed)
	ns := state{P: fw.P, H: s.H}
	out := succ{Ev: event{Op: "boot"}, Class: "boot:" + fw.Class}
	gk, gb := x.goods(s.P)
	switch fw.Outcome {
	case "stuck":
		out.Problems = append(out.Problems, problem{Oracle: "O6-no-boot", Msg: "the firmware has nothing it can boot (no fallback)"})
		ns.V = vstate{Phase: "off"}
	case "reboot":
		ns.V = vstate{Phase: "off"}
		out.Nontrivial = true
	case "boot":
		ps, nh, isTrial := selectCheck("kernel", fw.Kernel, gk, ns.H)
		out.Problems = append(out.Problems, ps...)
		ns.H = nh
		out.Nontrivial = isTrial || fw.P.key() != s.P.key()
		if x.v.Kind == kindUC16 {
			ps, nh, isTrialB := selectCheck("base", fw.Base, gb, ns.H)
			out.Problems = append(out.Problems, ps...)
			ns.H = nh
			out.Nontrivial = out.Nontrivial || isTrialB
			ns.V = vstate{Phase: "run", RunK: fw.Kernel, RunB: fw.Base}
		} else {
			ns.V = vstate{Phase: "fw", RunK: fw.Kernel, Trying: fw.Trying}
		}
	}
	out.Problems = append(out.Problems, x.checkGoodUnchanged(s.P, ns.P, "", "", "the firmware step")...)
	out.S = ns
	return out
}

func (x *explorer) stepInitramfs(s state) []succ {
	res := x.d.initramfs(s.P, s.V.Trying)
	var outs []succ
	_, gb := x.goods(s.P)
	fin := succ{Ev: event{Op: "initramfs"}}
	ns := state{P: res.final(s.P), H: s.H}
	switch res.outcome {
	case "ok":
		if res.kernel != s.V.RunK {
			fin.Problems = append(fin.Problems, problem{Oracle: "O1-kernel-mismatch", Msg: fmt.Sprintf("the firmware started kernel %s but the initramfs selects (mounts) kernel snap %s", s.V.RunK, res.kernel)})
		}
		if !setHas(currentKernels(s.P), res.kernel) {
			fin.Problems = append(fin.Problems, problem{Oracle: "O3-kernel-not-trusted", Msg: fmt.Sprintf("the initramfs selects kernel %s which is not in current_kernels %v", res.kernel, currentKernels(s.P))})
		}
		ps, nh, isTrial := selectCheck("base", res.base, gb, ns.H)
		fin.Problems = append(fin.Problems, ps...)
		ns.H = nh
		ns.V = vstate{Phase: "run", RunK: s.V.RunK, RunB: res.base}
		fin.Class = "initramfs:ok"
		if isTrial {
			fin.Class += " try-base"
		}
		if len(res.writes) > 0 {
			fin.Class += " wrote:" + strings.Join(res.names, ",")
		}
		fin.Nontrivial = isTrial || len(res.writes) > 0
	case "reboot":
		ns.V = vstate{Phase: "off"}
		fin.Class = "initramfs:reboot-requested"
		fin.Nontrivial = true
	default:
		fin.Problems = append(fin.Problems, problem{Oracle: "O6-initramfs-fails", Cause: fmt.Sprint(res.err), Msg: fmt.Sprintf("the boot stops in the initramfs: %v", res.err)})
		ns.V = vstate{Phase: "off"}
		fin.Class = "initramfs:error"
	}
	fin.Problems = append(fin.Problems, x.checkGoodUnchanged(s.P, ns.P, "", "", "the initramfs")...)
	fin.S = ns
	outs = append(outs, fin)
	for k := 1; k < len(res.writes); k++ {
		c := succ{Ev: event{Op: "initramfs", Crash: k}, S: state{P: res.writes[k-1], V: vstate{Phase: "off"}, H: s.H}, Class: "initramfs:power-loss", Nontrivial: true}
		c.Problems = x.checkGoodUnchanged(s.P, c.S.P, "", "", "the initramfs")
		outs = append(outs, c)
	}
	return outs
}

func (x *explorer) stepSetNext(s state, typ string, rev int, noTry bool) []succ {
	fn := x.v.fn(typ, rev)
	res := x.d.setNext(s.P, typ, rev, noTry)
	gk, gb := x.goods(s.P)
	good := gk
	if typ == "base" {
		good = gb
	}
	allowK, allowB := "", ""
	if noTry {
		if typ == "kernel" {
			allowK = fn
		} else {
			allowB = fn
		}
	}
	ev := event{Op: "setnext", Type: typ, Rev: rev, NoTry: noTry}
	what := ev.String()
	var outs []succ
	h := s.H
	if !noTry && h.tried(typ) == fn {
		h.setTried(typ, "") // requested again: a new trial of the same revision
	}
	fin := succ{Ev: ev, S: state{P: res.final(s.P), V: s.V, H: h}}
	switch {
	case res.err != nil:
		// snapd reports the error to the change; what is persistent stays. The request may be half applied.
		fin.Class = "setnext:error"
		if !noTry && fn != good {
			fin.S.H.setTrial(typ, setAdd(s.H.trial(typ), fn))
		}
		fin.Note = res.err.Error()
	case noTry || fn == good:
		fin.S.H.setTrial(typ, nil)
		fin.Class = "setnext:to-good writes:" + strings.Join(res.names, ",")
		if noTry {
			fin.Class = "setnext:no-try writes:" + strings.Join(res.names, ",")
		}
	default:
		fin.S.H.setTrial(typ, []string{fn})
		fin.Class = "setnext:try writes:" + strings.Join(res.names, ",")
	}
	fin.Problems = x.checkGoodUnchanged(s.P, fin.S.P, allowK, allowB, what)
	outs = append(outs, fin)
	for k := 1; k < len(res.writes); k++ {
		e := ev
		e.Crash = k
		c := succ{Ev: e, S: state{P: res.writes[k-1], V: vstate{Phase: "off"}, H: h}, Class: "setnext:power-loss", Nontrivial: true}
		if !noTry && fn != good {
			c.S.H.setTrial(typ, setAdd(s.H.trial(typ), fn))
		}
		c.Problems = x.checkGoodUnchanged(s.P, c.S.P, allowK, allowB, e.String())
		outs = append(outs, c)
	}
	return outs
}

func (x *explorer) stepMark(s state) []succ {
	res := x.d.mark(s.P)
	var outs []succ
	fin := succ{Ev: event{Op: "mark"}, S: state{P: res.final(s.P), V: s.V, H: s.H}}
	k0, b0 := x.goods(s.P)
	k1, b1 := x.goods(fin.S.P)
	fin.S.H.EverK = setAdd(s.H.EverK, k1)
	fin.S.H.EverB = setAdd(s.H.EverB, b1)
	if fin.S.H.TriedK == k1 {
		fin.S.H.TriedK = ""
	}
	if fin.S.H.TriedB == b1 {
		fin.S.H.TriedB = ""
	}
	fin.Class = "mark: writes:" + strings.Join(res.names, ",")
	if res.err != nil {
		fin.Class = "mark:error"
		fin.Note = res.err.Error()
	}
	if k1 != k0 || b1 != b0 {
		fin.Class += " commits-new-good"
		fin.Nontrivial = true
	}
	fin.Problems = x.checkGoodUnchanged(s.P, fin.S.P, s.V.RunK, s.V.RunB, "mark-boot-successful")
	outs = append(outs, fin)
	for k := 1; k < len(res.writes); k++ {
		c := succ{Ev: event{Op: "mark", Crash: k}, S: state{P: res.writes[k-1], V: vstate{Phase: "off"}, H: s.H}, Class: "mark:power-loss", Nontrivial: true}
		ck, cb := x.goods(c.S.P)
		c.S.H.EverK = setAdd(s.H.EverK, ck)
		c.S.H.EverB = setAdd(s.H.EverB, cb)
		c.Problems = x.checkGoodUnchanged(s.P, c.S.P, s.V.RunK, s.V.RunB, c.Ev.String())
		outs = append(outs, c)
	}
	return outs
}

func (x *explorer) hasType(t string) bool {
	for _, y := range x.v.Types {
		if y == t {
			return true
		}
	}
	return false
}

func (x *explorer) successors(s state) []succ {
	var outs []succ
	switch s.V.Phase {
	case "off":
		outs = append(outs, x.stepBoot(s))
	case "fw":
		outs = append(outs, x.stepInitramfs(s)...)
		// the started kernel dies before the initramfs does anything (or power is lost)
		outs = append(outs, succ{Ev: event{Op: "fail"}, S: state{P: s.P, V: vstate{Phase: "off"}, H: s.H}, Class: "fail:before-initramfs", Nontrivial: true})
	case "run":
		for _, t := range []string{"kernel", "base"} {
			if !x.hasType(t) {
				continue
			}
			for r := 1; r <= x.v.Revs; r++ {
				outs = append(outs, x.stepSetNext(s, t, r, false)...)
			}
			for r := 1; r <= x.v.Revs; r++ {
				if setHas(s.H.ever(t), x.v.fn(t, r)) {
					outs = append(outs, x.stepSetNext(s, t, r, true)...)
				}
			}
		}
		outs = append(outs, x.stepMark(s)...)
		// orderly reboot requested by snapd (or the boot dies after the initramfs / power is lost: same persistent data)
		rb := succ{Ev: event{Op: "reboot"}, S: state{P: s.P, V: vstate{Phase: "off"}, H: s.H}, Class: "reboot"}
		if x.v.Kind == kindPiboot20 {
			// snapd's reboot passes the bootloader's reboot arguments ("0 tryboot") while kernel_status=try
			rb.S.V.Armed = s.P.Env["kernel_status"] == "try"
			outs = append(outs, succ{Ev: event{Op: "fail"}, S: state{P: s.P, V: vstate{Phase: "off"}, H: s.H}, Class: "fail:power-loss-while-running", Nontrivial: true})
		}
		outs = append(outs, rb)
	}
	return outs
}

// O6: from the persistent data p, with nothing else failing, run mode is reached within 3 reboots.
func (x *explorer) bootClosure(p pstate, armed bool) []problem {
	key := p.key()
	if armed {
		key += "|armed"
	}
	if ps, ok := x.closureMemo[key]; ok {
		return ps
	}
	x.closureRuns++
	var ps []problem
	var trace []string
	done := false
	for boots := 0; boots < 4 && !done; boots++ {
		fw := x.d.firmware(p, armed)
		armed = false
		p = fw.P
		trace = append(trace, "firmware:"+fw.Class)
		switch fw.Outcome {
		case "stuck":
			ps = append(ps, problem{Oracle: "O6-no-boot", Msg: "the firmware has nothing it can boot: " + strings.Join(trace, " / ")})
			done = true
		case "reboot":
		case "boot":
			if x.v.Kind == kindUC16 {
				done = true
				break
			}
			res := x.d.initramfs(p, fw.Trying)
			p = res.final(p)
			trace = append(trace, "initramfs:"+res.outcome)
			switch res.outcome {
			case "ok":
				if res.kernel != fw.Kernel {
					ps = append(ps, problem{Oracle: "O1-kernel-mismatch", Msg: fmt.Sprintf("the firmware started kernel %s but the initramfs selects kernel snap %s (%s)", fw.Kernel, res.kernel, strings.Join(trace, " / "))})
				}
				done = true
			case "reboot":
			default:
				ps = append(ps, problem{Oracle: "O6-initramfs-fails", Cause: fmt.Sprint(res.err), Msg: fmt.Sprintf("the boot stops in the initramfs: %v (%s)", res.err, strings.Join(trace, " / "))})
				done = true
			}
		}
	}
	if !done {
		ps = append(ps, problem{Oracle: "O6-reboot-loop", Msg: "run mode is not reached within 3 reboots: " + strings.Join(trace, " / ")})
	}
	x.closureMemo[key] = ps
	return ps
}

// O7 (UC20): the known-good kernel, i.e. what every fallback path boots, is trusted by the modeenv. This
// is the state invariant behind "the boot never stops for lack of a trusted kernel": it pins a dead
// end on the write that created it rather than on the later boot that runs into it.
func (x *explorer) fallbackTrusted(p pstate) []problem {
	if x.v.Kind == kindUC16 {
		return nil
	}
	gk, _ := x.goods(p)
	if setHas(currentKernels(p), gk) {
		return nil
	}
	return []problem{{Oracle: "O7-fallback-kernel-not-trusted", Msg: fmt.Sprintf("the known-good (fallback) kernel %s is not listed in current_kernels %v: any boot that falls back to it stops in the initramfs", gk, currentKernels(p))}}
}

func (x *explorer) closureProblems(s state) []problem {
	ps := append(x.fallbackTrusted(s.P), x.bootClosure(s.P, false)...)
	if x.v.Kind == kindPiboot20 && s.V.Phase == "run" && s.P.Env["kernel_status"] == "try" {
		ps = append(append([]problem(nil), ps...), x.bootClosure(s.P, true)...)
	}
	return ps
}

// ---------------------------------------------------------------------------------------------
// cases, replay, exploration

type caseT struct {
	Variant variantT `json:"variant"`
	Path    []event  `json:"path"`
	Oracle  string   `json:"oracle,omitempty"`
	Msg     string   `json:"msg,omitempty"`
	Final   *state   `json:"state_after_path,omitempty"`
}

func initialState(init pstate, v variantT) state {
	s := state{P: init, V: vstate{Phase: "off"}}
	s.H.EverK = []string{v.fn("kernel", 1)}
	s.H.EverB = []string{v.fn("base", 1)}
	return s
}

func sameEvent(a, b event) bool { return a == b }

// runPath replays a path from the initial state; report is called for every problem with the path prefix.
func runPath(x *explorer, init pstate, path []event, verbose bool, report func(prefix []event, s state, p problem)) (state, error) {
	s := initialState(init, x.v)
	if verbose {
		fmt.Printf("  initial: %s\n", eng.JSON(s))
	}
	for i, ev := range path {
		var hit *succ
		sc := x.successors(s)
		for k := range sc {
			if sameEvent(sc[k].Ev, ev) {
				hit = &sc[k]
				break
			}
		}
		if hit == nil {
			return s, fmt.Errorf("event %d (%s) is not enabled in the state reached", i, ev)
		}
		s = hit.S
		if verbose {
			fmt.Printf("  %-46s [%s] %s\n      -> %s\n", ev.String(), hit.Class, hit.Note, eng.JSON(s))
		}
		for _, p := range hit.Problems {
			report(path[:i+1], s, p)
		}
		for _, p := range x.closureProblems(s) {
			report(path[:i+1], s, p)
		}
	}
	return s, nil
}

var quotedRe = regexp.MustCompile(`"[^"]*"`)

// vkey is the canonical identity of a violation: device kind, oracle (+ cause) and the culprit, i.e. the
// last event on the path that made snapd write boot state (SetNextBoot / MarkBootSuccessful / a power
// loss inside an operation). Revisions and the plain boot/initramfs/reboot steps that merely expose the
// damage are not part of the key, so one defect maps to one key per device kind.
func vkey(v variantT, p problem, path []event) string {
	culprit := "initial-state"
	for i := len(path) - 1; i >= 0; i-- {
		ev := path[i]
		if ev.Op == "setnext" || ev.Op == "mark" || ev.Crash > 0 {
			culprit = ev.Op
			if ev.Type != "" {
				culprit += "-" + ev.Type
			}
			if ev.NoTry {
				culprit += "-no-try"
			}
			if ev.Crash > 0 {
				culprit += "+power-loss"
			}
			break
		}
	}
	o := p.Oracle
	if p.Cause != "" {
		o += ":" + strings.ReplaceAll(quotedRe.ReplaceAllString(p.Cause, "X"), " ", "-")
	}
	return fmt.Sprintf("%s|%s|after-%s", v.Kind, o, culprit)
}

func variants(r *eng.Run) []variantT {
	kb := []string{"kernel", "base"}
	dq := func(q, t int) int {
		if n, err := strconv.Atoi(os.Getenv("C17_DEPTH")); err == nil && n > 0 {
			return n // experiments only
		}
		return r.Pick(q, t)
	}
	k, b := []string{"kernel"}, []string{"base"}
	const full = 64 // above the depth at which the reachable state space closes (measured <= 30): complete exploration
	if r.Quick() {
		// quick: complete state space for two revisions (and three where it is small), depth-bounded for three
		return []variantT{
			{Name: "uc20-grub/kernel/2revs", Kind: kindGrub20, Types: k, Revs: 2, Depth: dq(full, full)},
			{Name: "uc20-grub/kernel/3revs", Kind: kindGrub20, Types: k, Revs: 3, Depth: dq(13, full)},
			{Name: "uc20-grub/base/3revs", Kind: kindGrub20, Types: b, Revs: 3, Depth: dq(full, full)},
			{Name: "uc20-grub/kernel+base/2revs", Kind: kindGrub20, Types: kb, Revs: 2, Depth: dq(12, full)},
			{Name: "uc16/kernel/3revs", Kind: kindUC16, Types: k, Revs: 3, Depth: dq(full, full)},
			{Name: "uc16/kernel+base/2revs", Kind: kindUC16, Types: kb, Revs: 2, Depth: dq(full, full)},
			{Name: "uc20-notscriptable/kernel/2revs", Kind: kindPiboot20, Types: k, Revs: 2, Depth: dq(full, full)},
			{Name: "uc20-notscriptable/kernel/3revs", Kind: kindPiboot20, Types: k, Revs: 3, Depth: dq(13, full)},
			{Name: "uc20-notscriptable/kernel+base/2revs", Kind: kindPiboot20, Types: kb, Revs: 2, Depth: dq(12, full)},
		}
	}
	return []variantT{
		{Name: "uc20-grub/kernel/3revs", Kind: kindGrub20, Types: k, Revs: 3, Depth: dq(full, full)},
		{Name: "uc20-grub/base/3revs", Kind: kindGrub20, Types: b, Revs: 3, Depth: dq(full, full)},
		{Name: "uc20-grub/kernel+base/2revs", Kind: kindGrub20, Types: kb, Revs: 2, Depth: dq(full, full)},
		{Name: "uc16/kernel/3revs", Kind: kindUC16, Types: k, Revs: 3, Depth: dq(full, full)},
		{Name: "uc16/kernel+base/2revs", Kind: kindUC16, Types: kb, Revs: 2, Depth: dq(full, full)},
		{Name: "uc16/kernel+base/3revs", Kind: kindUC16, Types: kb, Revs: 3, Depth: dq(full, full)},
		{Name: "uc20-notscriptable/kernel/3revs", Kind: kindPiboot20, Types: k, Revs: 3, Depth: dq(full, full)},
		{Name: "uc20-notscriptable/kernel+base/2revs", Kind: kindPiboot20, Types: kb, Revs: 2, Depth: dq(full, full)},
	}
}

func mkRoot() string {
	os.MkdirAll(eng.WorkDir(), 0755)
	tmp, err := os.MkdirTemp(eng.WorkDir(), "c17-")
	if err != nil {
		eng.HarnessError("%v", err)
	}
	return tmp
}

func grubConformance(r *eng.Run) {
	src, from := grubCfgSource()
	same := string(assets.Internal("grub.cfg")) == src
	r.Info("grub_cfg_source", from)
	r.Info("grub_cfg_embedded_asset_identical_to_source", same)
	if !same {
		fmt.Printf("NOTE the embedded grub.cfg asset differs from %s; the file is what is interpreted\n", from)
	}
}

type node struct {
	s      state
	parent int
	ev     event
	depth  int
}

// snapd's Mock* helpers (boot.MockInitramfsReboot, kcmdline.MockProcCmdline) and the "no fsync in tests"
// switch of osutil insist on osutil.IsTestBinary(), which matches argv[0] against ".../go-build.../x.test".
// The driver runs the compiled test binary from $VERIF_WORK/bin, so the process re-executes itself once
// through a symlink whose path has that shape. Nothing else changes (same binary, same environment).
func ensureTestBinaryName() {
	if osutil.IsTestBinary() {
		return
	}
	if os.Getenv("C17_REEXEC") != "" {
		eng.HarnessError("re-executed but argv[0]=%q is still not recognised as a test binary", os.Args[0])
	}
	exe, err := os.Executable()
	if err != nil {
		eng.HarnessError("%v", err)
	}
	dir := filepath.Join(eng.WorkDir(), "go-build-verif")
	if err := os.MkdirAll(dir, 0755); err != nil {
		eng.HarnessError("%v", err)
	}
	link := filepath.Join(dir, strings.TrimSuffix(filepath.Base(exe), ".test")+".test")
	if cur, err := os.Readlink(link); err != nil || cur != exe {
		tmp := fmt.Sprintf("%s.%d", link, os.Getpid())
		os.Remove(tmp)
		if err := os.Symlink(exe, tmp); err != nil {
			eng.HarnessError("%v", err)
		}
		if err := os.Rename(tmp, link); err != nil {
			eng.HarnessError("%v", err)
		}
	}
	err = syscall.Exec(link, append([]string{link}, os.Args[1:]...), append(os.Environ(), "C17_REEXEC=1"))
	eng.HarnessError("cannot re-execute as %s: %v", link, err)
}

func TestC17(t *testing.T) {
	ensureTestBinaryName()
	r := eng.Start("C17", "model_checking", 100*time.Second, 15*time.Minute)
	r.Assume(
		"bootloadertest mocks stand for the bootloader back-ends: each SetBootVars / EnableKernel / EnableTryKernel / DisableTryKernel / SetBootVarsFromInitramfs call and each modeenv write (osutil.AtomicWriteFile) is one atomic persistent write; power can be lost between any two of them",
		"GRUB semantics outside the repository (evaluator in grub_test.go): entry $default runs after the script, chainloader fails on a missing file, a failed entry runs entry $fallback, save_env is atomic; the script itself is the repository's bootloader/assets/data/grub.cfg",
		"UC16/18 gadget boot script and piboot tryboot firmware are hand-written protocol models (fwUC16, fwPiboot)",
		"no sealed keys (resealing is a no-op), no trusted boot assets, no kernel command line tracking; snap blobs of all revisions stay present (no garbage collection event)",
		"the initramfs step is the sequence of boot-package calls made by cmd/snap-bootstrap's run-mode path; mounting itself is not modelled",
	)
	vs := variants(r)

	if rc := r.ReplayCase(); rc != nil {
		var c caseT
		if err := json.Unmarshal(rc, &c); err != nil {
			eng.HarnessError("%v", err)
		}
		root := mkRoot()
		d, init := newDevice(c.Variant, root)
		x := &explorer{v: c.Variant, d: d, closureMemo: map[string][]problem{}}
		fmt.Printf("replay %s: %d events\n", c.Variant.Name, len(c.Path))
		_, err := runPath(x, init, c.Path, true, func(prefix []event, s state, p problem) {
			fmt.Printf("   PROBLEM %s: %s\n", p.Oracle, p.Msg)
			r.Violation(vkey(c.Variant, p, prefix), p.Msg, caseT{Variant: c.Variant, Path: prefix, Oracle: p.Oracle, Msg: p.Msg})
		})
		d.close()
		os.RemoveAll(root)
		if err != nil {
			eng.HarnessError("replay: %v", err)
		}
		r.Finish("replay")
	}

	bounds := map[string]interface{}{}
	for _, v := range vs {
		bounds[v.Name] = map[string]interface{}{"types": v.Types, "revisions": v.Revs, "bfs_depth": v.Depth}
	}
	r.Info("bounds", bounds)
	grubConformance(r)
	if only := os.Getenv("C17_ONLY"); only != "" { // experiments only: one variant, in-process
		if pf := os.Getenv("C17_PROF"); pf != "" {
			f, _ := os.Create(pf)
			pprof.StartCPUProfile(f)
		}
		for _, v := range vs {
			if v.Name == only {
				exploreVariant(r, v)
			}
		}
		pprof.StopCPUProfile()
		r.Add("evaluations", r.Count("transitions")+r.Count("boot_closure_runs"))
		r.Finish(rule)
	}
	if r.Sharded(len(vs)) {
		r.Add("evaluations", r.Count("transitions")+r.Count("boot_closure_runs"))
		r.Finish(rule)
	}
	for vi, v := range vs {
		if !r.Mine(vi) {
			continue
		}
		r.NoteCurrent(v.Name)
		exploreVariant(r, v)
	}
	if _, n := r.ShardIndex(); n <= 1 {
		r.Add("evaluations", r.Count("transitions")+r.Count("boot_closure_runs"))
	}
	r.Finish(rule)
}

const rule = "per device variant: breadth-first over every event sequence up to the depth bound from the freshly installed device (r1 known-good), with dedup on (persistent boot data, volatile phase/running revisions, oracle history); events: firmware boot, initramfs, boot failure, reboot, SetNextBoot(type, every revision, try), SetNextBoot(type, every revision that was ever known-good, no-try), MarkBootSuccessful, and for every operation with n>=2 persistent writes the n-1 power-loss successors (state = snapshot after write k); every successor is computed by the real boot package; oracles O1-O5 on every transition, O6 (run mode reached within 3 reboots, real initramfs code) from every distinct state. Non-trivial transitions: power loss between two writes, boots that select a trial revision or change the boot state (try->trying, trying->cleared, fallback entry, initramfs reboot request), marks that commit a new known-good revision, boot failures."

func exploreVariant(r *eng.Run, v variantT) {
	root := mkRoot()
	d, init := newDevice(v, root)
	defer func() {
		d.close()
		os.RemoveAll(root)
	}()
	x := &explorer{v: v, d: d, closureMemo: map[string][]problem{}}

	s0 := initialState(init, v)
	nodes := []node{{s: s0, parent: -1}}
	seen := map[string]bool{s0.key(): true}
	pathTo := func(i int) []event {
		var rev []event
		for i > 0 {
			rev = append(rev, nodes[i].ev)
			i = nodes[i].parent
		}
		for a, b := 0, len(rev)-1; a < b; a, b = a+1, b-1 {
			rev[a], rev[b] = rev[b], rev[a]
		}
		return rev
	}
	reported := map[string]bool{}
	report := func(path []event, s state, p problem) {
		key := vkey(v, p, path)
		if reported[key] {
			r.Add("violating_transitions_same_key", 1)
			return
		}
		reported[key] = true
		// determinism: the recorded path must reproduce the same problem from scratch
		found := false
		x2 := &explorer{v: v, d: d, closureMemo: map[string][]problem{}}
		if _, err := runPath(x2, init, path, false, func(prefix []event, _ state, q problem) {
			if len(prefix) == len(path) && q.Oracle == p.Oracle {
				found = true
			}
		}); err != nil || !found {
			eng.HarnessError("violation %s does not reproduce from its path %v (err=%v)", key, path, err)
		}
		sc := s
		r.Violation(key, fmt.Sprintf("[%s] after %v: %s", v.Name, path, p.Msg), caseT{Variant: v, Path: path, Oracle: p.Oracle, Msg: p.Msg, Final: &sc})
	}
	for _, p := range x.closureProblems(s0) {
		report([]event{}, s0, p)
	}
	var transitions, nontrivial, crashSucc, deepest, pruned int64
	fixpoint := true
	capped := false
	var sampleTrial, sampleCrash, sampleMark bool
	for qi := 0; qi < len(nodes); qi++ {
		n := nodes[qi]
		if n.depth >= v.Depth {
			fixpoint = false
			continue
		}
		if r.TimeUp() {
			capped = true
			break
		}
		for _, sc := range x.successors(n.s) {
			transitions++
			r.Distinct("outcome", v.Kind+" "+sc.Class)
			if sc.Nontrivial {
				nontrivial++
			}
			if sc.Ev.Crash > 0 {
				crashSucc++
			}
			// a violating transition (or a successor that violates a state oracle) is reported with its path and
			// not explored further: what follows a broken state is damage, not new information
			probs := append(append([]problem(nil), sc.Problems...), x.closureProblems(sc.S)...)
			if len(probs) > 0 {
				path := append(pathTo(qi), sc.Ev)
				for _, p := range probs {
					report(path, sc.S, p)
				}
				pruned++
				continue
			}
			k := sc.S.key()
			if seen[k] {
				continue
			}
			seen[k] = true
			nodes = append(nodes, node{s: sc.S, parent: qi, ev: sc.Ev, depth: n.depth + 1})
			if int64(n.depth+1) > deepest {
				deepest = int64(n.depth + 1)
			}
			// a few explored traces written out in full
			want := ""
			switch {
			case !sampleMark && strings.Contains(sc.Class, "commits-new-good"):
				sampleMark, want = true, "first trace on which a trial revision becomes known-good"
			case !sampleCrash && sc.Ev.Crash > 0 && sc.Ev.Op == "mark":
				sampleCrash, want = true, "first power loss inside MarkBootSuccessful"
			case !sampleTrial && strings.HasPrefix(sc.Class, "initramfs:reboot"):
				sampleTrial, want = true, "first trace on which the initramfs requests a fallback reboot"
			}
			if want != "" {
				r.Sample(map[string]interface{}{"variant": v.Name, "what": want, "path": fmt.Sprint(append(pathTo(qi), sc.Ev)), "state": sc.S})
			}
		}
	}
	if capped {
		r.Cap("time:"+v.Name, fmt.Sprintf("stopped after expanding %d states", len(nodes)))
	}
	r.Add("states", int64(len(nodes)))
	r.Add("transitions", transitions)
	r.Add("traces_validated_against_impl", transitions)
	r.Add("impl_calls", d.implCalls)
	r.Add("boot_closure_runs", x.closureRuns)
	r.Add("distinct_nontrivial", nontrivial)
	r.Add("power_loss_successors", crashSucc)
	r.Add("violating_transitions_not_expanded", pruned)
	r.Max("max_depth_reached", deepest)
	r.Info("variant:"+v.Name, map[string]interface{}{"states": len(nodes), "transitions": transitions, "depth_bound": v.Depth, "deepest_new_state": deepest,
		"fixpoint_below_bound": fixpoint && !capped, "distinct_persistent_states": len(x.closureMemo), "power_loss_successors": crashSucc})
	fmt.Printf("C17 %-32s states=%d transitions=%d deepest=%d fixpoint=%v persistent=%d\n", v.Name, len(nodes), transitions, deepest, fixpoint && !capped, len(x.closureMemo))
}
