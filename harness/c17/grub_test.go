// Tiny evaluator for the subset of the GRUB script language used by the shipped UC20 run-mode boot
// script bootloader/assets/data/grub.cfg: comments, `set`, `load_env`, `save_env`, `echo`, `reboot`,
// `chainloader`, `if/elif/else/fi` with `[ a = b ]`, `[ a != b ]`, `[ -n a ]`, `[ -z a ]`, and
// `menuentry "title" { ... }`; variable expansion in unquoted and double-quoted words.
// Anything outside the subset is a harness error (exit 2), never a violation.
//
// Trusted semantics of GRUB itself (not in the repository): after the top-level script ran, menu entry
// number $default is executed; `chainloader FILE` fails when FILE does not exist; when the selected
// entry fails and $fallback is set, that entry is executed instead; without a fallback GRUB sits in
// its menu (reported as "stuck"); `save_env` persists the listed variables atomically.
package c17_test

import (
	"fmt"
	"path"
	"strconv"
	"strings"
)

type gseg struct {
	text  string
	isVar bool
}

type gword struct {
	segs   []gseg
	quoted bool // contained a quoted part (so it is never a keyword and may be empty)
}

func (w gword) plain() (string, bool) {
	if w.quoted {
		return "", false
	}
	var sb strings.Builder
	for _, s := range w.segs {
		if s.isVar {
			return "", false
		}
		sb.WriteString(s.text)
	}
	return sb.String(), true
}

type gtok struct {
	kind string // "word" | "sep" | "{" | "}"
	w    gword
}

func grubLex(src string) ([]gtok, error) {
	var toks []gtok
	i := 0
	n := len(src)
	isNameChar := func(c byte) bool {
		return c == '_' || (c >= '0' && c <= '9') || (c >= 'a' && c <= 'z') || (c >= 'A' && c <= 'Z')
	}
	readVar := func() (string, error) { // src[i] == '$'
		i++
		if i < n && src[i] == '{' {
			j := strings.IndexByte(src[i:], '}')
			if j < 0 {
				return "", fmt.Errorf("unterminated ${")
			}
			name := src[i+1 : i+j]
			i += j + 1
			return name, nil
		}
		j := i
		for j < n && isNameChar(src[j]) {
			j++
		}
		if j == i {
			return "", fmt.Errorf("lone $ at offset %d", i)
		}
		name := src[i:j]
		i = j
		return name, nil
	}
	for i < n {
		c := src[i]
		switch {
		case c == ' ' || c == '\t' || c == '\r':
			i++
		case c == '\n' || c == ';':
			toks = append(toks, gtok{kind: "sep"})
			i++
		case c == '#':
			for i < n && src[i] != '\n' {
				i++
			}
		case c == '{' || c == '}':
			toks = append(toks, gtok{kind: string(c)})
			i++
		default:
			var w gword
			var cur strings.Builder
			flush := func() {
				if cur.Len() > 0 {
					w.segs = append(w.segs, gseg{text: cur.String()})
					cur.Reset()
				}
			}
		word:
			for i < n {
				c := src[i]
				switch {
				case c == ' ' || c == '\t' || c == '\r' || c == '\n' || c == ';':
					break word
				case c == '\'':
					w.quoted = true
					j := strings.IndexByte(src[i+1:], '\'')
					if j < 0 {
						return nil, fmt.Errorf("unterminated '")
					}
					cur.WriteString(src[i+1 : i+1+j])
					i += j + 2
				case c == '"':
					w.quoted = true
					i++
					for {
						if i >= n {
							return nil, fmt.Errorf("unterminated \"")
						}
						if src[i] == '"' {
							i++
							break
						}
						if src[i] == '\\' && i+1 < n {
							cur.WriteByte(src[i+1])
							i += 2
							continue
						}
						if src[i] == '$' {
							flush()
							name, err := readVar()
							if err != nil {
								return nil, err
							}
							w.segs = append(w.segs, gseg{text: name, isVar: true})
							continue
						}
						cur.WriteByte(src[i])
						i++
					}
				case c == '\\' && i+1 < n:
					cur.WriteByte(src[i+1])
					i += 2
				case c == '$':
					flush()
					name, err := readVar()
					if err != nil {
						return nil, err
					}
					w.segs = append(w.segs, gseg{text: name, isVar: true})
				default:
					cur.WriteByte(c)
					i++
				}
			}
			flush()
			toks = append(toks, gtok{kind: "word", w: w})
		}
	}
	toks = append(toks, gtok{kind: "sep"})
	return toks, nil
}

type gnode struct {
	kind   string    // "cmd" | "if" | "menu"
	words  []gword   // cmd; menu: the title words
	conds  [][]gword // if: condition commands
	blocks [][]gnode // if: one block per condition
	els    []gnode   // if
	body   []gnode   // menu
}

type gparser struct {
	toks []gtok
	pos  int
}

func (p *gparser) peekKeyword() string {
	if p.pos < len(p.toks) && p.toks[p.pos].kind == "word" {
		if s, ok := p.toks[p.pos].w.plain(); ok {
			return s
		}
	}
	return ""
}

func (p *gparser) skipSeps() {
	for p.pos < len(p.toks) && p.toks[p.pos].kind == "sep" {
		p.pos++
	}
}

func (p *gparser) simple() []gword {
	var ws []gword
	for p.pos < len(p.toks) && p.toks[p.pos].kind == "word" {
		ws = append(ws, p.toks[p.pos].w)
		p.pos++
	}
	return ws
}

// block parses statements until one of the terminator keywords (not consumed) or "}" or end of input
func (p *gparser) block(term ...string) ([]gnode, error) {
	var out []gnode
	for {
		p.skipSeps()
		if p.pos >= len(p.toks) {
			return out, nil
		}
		t := p.toks[p.pos]
		if t.kind == "}" {
			return out, nil
		}
		if t.kind == "{" {
			return nil, fmt.Errorf("unexpected {")
		}
		kw := p.peekKeyword()
		for _, x := range term {
			if kw == x {
				return out, nil
			}
		}
		switch kw {
		case "if":
			p.pos++
			nd := gnode{kind: "if"}
			for {
				cond := p.simple()
				if len(cond) == 0 {
					return nil, fmt.Errorf("empty if condition")
				}
				p.skipSeps()
				if p.peekKeyword() != "then" {
					return nil, fmt.Errorf("expected then")
				}
				p.pos++
				b, err := p.block("elif", "else", "fi")
				if err != nil {
					return nil, err
				}
				nd.conds = append(nd.conds, cond)
				nd.blocks = append(nd.blocks, b)
				k := p.peekKeyword()
				p.pos++
				if k == "elif" {
					continue
				}
				if k == "else" {
					e, err := p.block("fi")
					if err != nil {
						return nil, err
					}
					nd.els = e
					if p.peekKeyword() != "fi" {
						return nil, fmt.Errorf("expected fi")
					}
					p.pos++
					break
				}
				if k == "fi" {
					break
				}
				return nil, fmt.Errorf("unterminated if")
			}
			out = append(out, nd)
		case "menuentry":
			p.pos++
			nd := gnode{kind: "menu", words: p.simple()}
			if p.pos >= len(p.toks) || p.toks[p.pos].kind != "{" {
				return nil, fmt.Errorf("menuentry without {")
			}
			p.pos++
			b, err := p.block()
			if err != nil {
				return nil, err
			}
			if p.pos >= len(p.toks) || p.toks[p.pos].kind != "}" {
				return nil, fmt.Errorf("menuentry without }")
			}
			p.pos++
			nd.body = b
			out = append(out, nd)
		case "then", "elif", "else", "fi", "function", "for", "while", "until", "submenu":
			return nil, fmt.Errorf("unsupported or misplaced keyword %q", kw)
		default:
			out = append(out, gnode{kind: "cmd", words: p.simple()})
		}
	}
}

func grubParse(src string) ([]gnode, error) {
	toks, err := grubLex(src)
	if err != nil {
		return nil, err
	}
	p := &gparser{toks: toks}
	nodes, err := p.block()
	if err != nil {
		return nil, err
	}
	if p.pos < len(p.toks) {
		return nil, fmt.Errorf("trailing input at token %d", p.pos)
	}
	return nodes, nil
}

// grubResult is what one run of the firmware + boot script does.
type grubResult struct {
	Outcome   string            // "boot" | "reboot" | "stuck"
	File      string            // boot: base name of the chainloaded file (kernel.efi | try-kernel.efi)
	Cmdline   string            // boot: arguments passed to the chainloaded kernel
	Saved     map[string]string // grubenv after the run
	SaveCalls int
	Fallback  bool // the fallback entry was used
}

type grubMachine struct {
	vars   map[string]string
	stored map[string]string
	menu   []gnode
	exists func(file string) bool
	res    *grubResult
	done   bool
	failed bool
}

func (m *grubMachine) expand(w gword) string {
	var sb strings.Builder
	for _, s := range w.segs {
		if s.isVar {
			sb.WriteString(m.vars[s.text])
		} else {
			sb.WriteString(s.text)
		}
	}
	return sb.String()
}

func (m *grubMachine) test(args []string) (bool, error) {
	if len(args) == 0 || args[len(args)-1] != "]" {
		return false, fmt.Errorf("[ without ]")
	}
	a := args[:len(args)-1]
	switch {
	case len(a) == 3 && (a[1] == "=" || a[1] == "=="):
		return a[0] == a[2], nil
	case len(a) == 3 && a[1] == "!=":
		return a[0] != a[2], nil
	case len(a) == 2 && a[0] == "-n":
		return a[1] != "", nil
	case len(a) == 2 && a[0] == "-z":
		return a[1] == "", nil
	case len(a) == 1:
		return a[0] != "", nil
	}
	return false, fmt.Errorf("unsupported test %q", args)
}

// run executes one simple command; the bool is its exit status (true = success)
func (m *grubMachine) run(ws []gword) (bool, error) {
	args := make([]string, len(ws))
	for i, w := range ws {
		args[i] = m.expand(w)
	}
	switch args[0] {
	case "set":
		if len(args) != 2 || !strings.Contains(args[1], "=") {
			return false, fmt.Errorf("unsupported set %q", args)
		}
		kv := strings.SplitN(args[1], "=", 2)
		m.vars[kv[0]] = kv[1]
		return true, nil
	case "load_env":
		rest := args[1:]
		if len(rest) >= 2 && (rest[0] == "--file" || rest[0] == "-f") {
			rest = rest[2:]
		}
		if len(rest) == 0 {
			for k, v := range m.stored {
				m.vars[k] = v
			}
		}
		for _, k := range rest {
			if strings.HasPrefix(k, "-") {
				return false, fmt.Errorf("unsupported load_env option %q", k)
			}
			if v, ok := m.stored[k]; ok {
				m.vars[k] = v
			}
		}
		return true, nil
	case "save_env":
		rest := args[1:]
		if len(rest) >= 2 && (rest[0] == "--file" || rest[0] == "-f") {
			rest = rest[2:]
		}
		for _, k := range rest {
			if strings.HasPrefix(k, "-") {
				return false, fmt.Errorf("unsupported save_env option %q", k)
			}
			m.stored[k] = m.vars[k]
		}
		m.res.SaveCalls++
		return true, nil
	case "echo", "true":
		return true, nil
	case "false":
		return false, nil
	case "[":
		return m.test(args[1:])
	case "chainloader":
		if len(args) < 2 {
			return false, fmt.Errorf("chainloader without a file")
		}
		f := path.Base(args[1])
		if !m.exists(f) {
			return false, nil
		}
		m.res.Outcome = "boot"
		m.res.File = f
		m.res.Cmdline = strings.Join(args[2:], " ")
		m.done = true
		return true, nil
	case "reboot":
		m.res.Outcome = "reboot"
		m.done = true
		return true, nil
	}
	return false, fmt.Errorf("command %q is outside the supported subset", args[0])
}

func (m *grubMachine) exec(nodes []gnode, inMenu bool) error {
	for _, nd := range nodes {
		if m.done || m.failed {
			return nil
		}
		switch nd.kind {
		case "cmd":
			ok, err := m.run(nd.words)
			if err != nil {
				return err
			}
			if !ok && inMenu {
				// a failing command inside a menu entry (the chainloader) fails the entry
				m.failed = true
			}
		case "if":
			taken := false
			for i, c := range nd.conds {
				ok, err := m.run(c)
				if err != nil {
					return err
				}
				if ok {
					taken = true
					if err := m.exec(nd.blocks[i], inMenu); err != nil {
						return err
					}
					break
				}
			}
			if !taken {
				if err := m.exec(nd.els, inMenu); err != nil {
					return err
				}
			}
		case "menu":
			if inMenu {
				return fmt.Errorf("nested menuentry")
			}
			m.menu = append(m.menu, nd)
		}
	}
	return nil
}

// grubRun evaluates the parsed script against the persistent grubenv `stored`; exists tells whether a
// chainloader target (by base name) resolves.
func grubRun(script []gnode, stored map[string]string, exists func(string) bool) (*grubResult, error) {
	m := &grubMachine{vars: map[string]string{"grub_cpu": "x86_64", "prefix": "(hd0,gpt3)/EFI/ubuntu"}, stored: map[string]string{}, exists: exists, res: &grubResult{}}
	for k, v := range stored {
		m.stored[k] = v
	}
	if err := m.exec(script, false); err != nil {
		return nil, err
	}
	if m.done {
		return nil, fmt.Errorf("top-level script booted or rebooted outside a menu entry")
	}
	entry := func(v string) (int, error) {
		if v == "" {
			return 0, nil
		}
		n, err := strconv.Atoi(v)
		if err != nil || n < 0 || n >= len(m.menu) {
			return 0, fmt.Errorf("menu entry %q does not exist", v)
		}
		return n, nil
	}
	if len(m.menu) == 0 {
		return nil, fmt.Errorf("no menu entries")
	}
	n, err := entry(m.vars["default"])
	if err != nil {
		return nil, err
	}
	if err := m.exec(m.menu[n].body, true); err != nil {
		return nil, err
	}
	if !m.done {
		// the entry failed (or did nothing): GRUB runs the fallback entry if one is set
		fb, ok := m.vars["fallback"]
		if ok && fb != "" {
			fn, err := entry(fb)
			if err != nil {
				return nil, err
			}
			m.failed = false
			m.res.Fallback = true
			if err := m.exec(m.menu[fn].body, true); err != nil {
				return nil, err
			}
		}
	}
	if !m.done {
		m.res.Outcome = "stuck"
	}
	m.res.Saved = m.stored
	return m.res, nil
}
