#!/bin/bash
# validates MANIFEST.json and all evidence files against the schemas
python3-vt - <<'PY'
import json, jsonschema, glob, sys
ok = True
try:
    jsonschema.validate(json.load(open('/verif/MANIFEST.json')), json.load(open('/root/.vp/MANIFEST.schema.json')))
    print("manifest ok")
except Exception as e:
    print("MANIFEST INVALID", e); ok = False
sch = json.load(open('/root/.vp/EVIDENCE.schema.json'))
for f in sorted(glob.glob('/verif/evidence/*.json')):
    try:
        jsonschema.validate(json.load(open(f)), sch)
    except Exception as e:
        print("EVIDENCE INVALID", f, str(e)[:300]); ok = False
print("evidence files:", len(glob.glob('/verif/evidence/*.json')))
sys.exit(0 if ok else 1)
PY
