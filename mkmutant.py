#!/usr/bin/env python3
"""mkmutant.py <ID> <name> <repo-relative file> <old> <new> [<file2> <old2> <new2> ...]: writes mutants/<ID>/<name>.patch (unified diff, a/ b/ paths)."""
import sys, os, difflib
vid, name = sys.argv[1], sys.argv[2]
args = sys.argv[3:]
out = []
for k in range(0, len(args), 3):
    f, old, new = args[k:k+3]
    src = open(os.path.join("/repo", f)).read()
    if src.count(old) != 1:
        sys.exit("pattern occurs %d times in %s" % (src.count(old), f))
    dst = src.replace(old, new)
    out += list(difflib.unified_diff(src.splitlines(True), dst.splitlines(True), "a/" + f, "b/" + f))
d = os.path.join("/verif/mutants", vid)
os.makedirs(d, exist_ok=True)
open(os.path.join(d, name + ".patch"), "w").write("".join(out))
print("wrote", os.path.join(d, name + ".patch"))
