#!/bin/bash
# Runs the packages of BASELINE.json's stable_pass with the verif guard OFF and reports every stable test that does not pass.
export GOFLAGS=-mod=mod GOPROXY=off GOSUMDB=off GOTOOLCHAIN=local
cd /repo
pkgs=$(python3 -c "
import json
b=json.load(open('/root/.vp/BASELINE.json'))
print(' '.join(sorted({t.split('::')[0].replace('github.com/snapcore/snapd','.') for t in b['stable_pass']})))")
go test -json -vet=off -count=1 -timeout 25m $pkgs > /var/tmp/verif-work/baseline_off.json 2>/var/tmp/verif-work/baseline_off.err
python3 - <<'PY'
import json
b=json.load(open('/root/.vp/BASELINE.json'))
res={}
for l in open('/var/tmp/verif-work/baseline_off.json'):
    try: e=json.loads(l)
    except: continue
    if e.get('Test') and '/' not in e['Test'] and e.get('Action') in ('pass','fail','skip'):
        res[e['Package']+'::'+e['Test']]=e['Action']
bad=[t for t in b['stable_pass'] if res.get(t)!='pass']
print("stable tests:",len(b['stable_pass']),"passing now:",len(b['stable_pass'])-len(bad))
for t in bad: print("NOT PASSING:",t,res.get(t))
PY
